#!/bin/bash
# usage: tools/runall.sh [quick|thorough] [skip-regexp]  - runs every registered check, prints one line per check
cd "$(dirname "$0")/.."
tier=${1:-quick}; skip=${2:-^$}
for id in $(python3 -c "import json;print(' '.join(c['property_id'] for c in json.load(open('MANIFEST.json'))['checks']))"); do
  if echo "$id" | grep -Eq "$skip"; then continue; fi
  s=$(date +%s)
  out=$(./check $id $tier 2>&1)
  rc=$?
  e=$(date +%s)
  echo "$id rc=$rc $((e-s))s $(echo "$out" | grep -c '^KNOWN-FINDING') known $(echo "$out" | grep -E '^(VIOLATION|INCONCLUSIVE)' | head -2 | cut -c1-200)"
done
