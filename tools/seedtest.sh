#!/bin/bash
# usage: tools/seedtest.sh <seed-name> <property-id> <worktree> <pkg-dir-for-demo> [test-run-regexp] [check-only-regexp]
# Confirms a seeded change (demo fails with it, passes without it, package tests pass with it),
# stores it under /verif/seeded/<seed-name>/ and runs the property's quick check against it on /repo.
set -u
name=$1; id=$2; wt=$3; pkg=$4; run=${5:-TestSeed}; only=${6:-}
dst=/verif/seeded/$name; mkdir -p $dst
cp $wt/seed/patch.diff $dst/patch.diff
cp $wt/seed/demo_test.go $dst/demo_test.go
[ -f $wt/seed/notes.md ] && cp $wt/seed/notes.md $dst/notes.md
cd $wt
git checkout -q -- . 2>/dev/null; git apply seed/patch.diff || { echo "patch does not apply in worktree"; exit 2; }
cp seed/demo_test.go $pkg/zz_seed_demo_test.go
with=$(go test -vet=off -count=1 -run "$run" ./$pkg/ 2>&1 | tail -1)
git apply -R seed/patch.diff
without=$(go test -vet=off -count=1 -run "$run" ./$pkg/ 2>&1 | tail -1)
git apply seed/patch.diff
rm -f $pkg/zz_seed_demo_test.go
suite=$(go test -vet=off -count=1 ./$pkg/ 2>&1 | tail -1)
echo "demo with change:    $with"
echo "demo without change: $without"
echo "package tests with change: $suite"
cd /repo
git apply $dst/patch.diff || { echo "patch does not apply in /repo"; exit 2; }
cp /verif/evidence/$id.json /tmp/seedtest.ev.$$ 2>/dev/null
trap 'git -C /repo checkout -- .; [ -f /tmp/seedtest.ev.$$ ] && mv /tmp/seedtest.ev.$$ /verif/evidence/$id.json' EXIT INT TERM
cd /verif
out=$(./bin/gosym run --check checks/$id.json --tier quick ${only:+--only "$only"} 2>&1)
echo "$out" | grep -E "^(VIOLATION|INCONCLUSIVE|property=)|violated:" | cut -c1-400 | head -8
echo "{\"demo_with_change\": \"$with\", \"demo_without_change\": \"$without\", \"package_tests_with_change\": \"$suite\"}" > $dst/ran.json
