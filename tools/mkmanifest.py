#!/usr/bin/env python3
"""Regenerates /verif/MANIFEST.json from tools/claims.json (claimed checks) and
tools/not_applicable.json (unclaimed properties with reasons)."""
import json, os, sys

root = os.path.dirname(os.path.dirname(os.path.abspath(__file__)))
claims = json.load(open(os.path.join(root, "tools/claims.json")))
na = json.load(open(os.path.join(root, "tools/not_applicable.json")))
props = [json.loads(l)["id"] for l in open(os.path.join(root, "properties.jsonl")) if l.strip()]

checks = []
for pid in props:
    if pid not in claims:
        continue
    c = claims[pid]
    assert os.path.exists(os.path.join(root, "checks", pid + ".json")), pid
    checks.append({
        "property_id": pid,
        "quick_cmd": "./check %s quick" % pid,
        "thorough_cmd": "./check %s thorough" % pid,
        "evidence_file": "/verif/evidence/%s.json" % pid,
        "replay_cmd_template": "./check %s quick --replay {path}" % pid,
        "engine": "gosym",
        "level_claimed": {"category": "model_checking", "text": c["text"], "design_ref": "DESIGN.md §5 " + pid},
        "level_note": c["note"],
        "technique": c.get("technique", "symbolic execution of the real Go code from go/ssa, SMT (z3/cvc5) decides each assertion over all inputs within stated bounds; counterexamples replayed natively"),
    })

not_applicable = []
for pid in props:
    if pid in claims:
        assert pid not in na, pid + " both claimed and not_applicable"
        continue
    assert pid in na, pid + " neither claimed nor not_applicable"
    not_applicable.append({"property_id": pid, "reason": na[pid]})

manifest = {
    "version": 1,
    "setup_cmd": "./setup.sh",
    "hooks": {
        "guard": "verif",
        "enable": "no source hooks: harnesses and their runtime are injected as go/packages overlays (symbolic run) and `go test -overlay` (native replay); nothing is written under /repo",
        "baseline_off_cmd": "for m in $(cat /w/out/gomods.txt); do MF=$(cd /repo/$m && . /w/out/goenv.sh && gomodflag); (cd /repo/$m && go test $MF -json -vet=off -count=1 -timeout 25m ./...); done",
        "source_commits": json.load(open(os.path.join(root, "tools/source_commits.json"))) if os.path.exists(os.path.join(root, "tools/source_commits.json")) else [],
        "add_only": True,
    },
    "engines": [{
        "name": "gosym",
        "path": "/verif/engine",
        "serves_properties": [c["property_id"] for c in checks],
        "kind_free_text": "symbolic executor for go/ssa (path forking by deterministic re-execution, SMT terms for all integers/bools/bytes, BV and integer renderings, FP oracle, UF hashes), solvers z3 4.8.12 / z3 5.1 / cvc5 1.0 over stdin; native replay through go test -overlay",
    }],
    "checks": checks,
    "not_applicable": not_applicable,
    "notes": "Exit 0: every assertion on every explored path was discharged (unsat) within the bounds stated in evidence. Exit 1 + VIOLATION: a solver model reproduced on the natively compiled code. Exit 2 + INCONCLUSIVE: bound hit, solver unknown/timeout, or harness no longer compiles against the tree (never reported as success).",
}
json.dump(manifest, open(os.path.join(root, "MANIFEST.json"), "w"), indent=1)
print("MANIFEST.json: %d checks, %d not_applicable" % (len(checks), len(not_applicable)))
