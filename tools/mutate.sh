#!/bin/bash
# usage: tools/mutate.sh <repo-relative-file> <perl-substitution> <check-id> [only-regexp] [tier]
# Applies a one-off source mutation to /repo, runs the check, and restores the file.
set -u
f=/repo/$1; expr=$2; id=$3; only=${4:-}; tier=${5:-quick}
cp "$f" /tmp/mutate.bak.$$
perl -0pi -e "$expr" "$f"
if cmp -s "$f" /tmp/mutate.bak.$$; then echo "MUTATION DID NOT APPLY"; rm /tmp/mutate.bak.$$; exit 3; fi
(cd /repo && git diff --stat -- "$1" | tail -1)
cd /verif && ./bin/gosym run --check checks/$id.json --tier $tier ${only:+--only "$only"} 2>&1 | grep -E "VIOLATION|KNOWN|INCONCLUSIVE|violated|exit=" | head -12
cp /tmp/mutate.bak.$$ "$f"; rm /tmp/mutate.bak.$$
(cd /repo && git status --short -- "$1")
