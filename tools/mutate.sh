#!/bin/bash
# usage: tools/mutate.sh <repo-relative-file> <perl-substitution> <check-id> [only-regexp] [tier]
# Applies a one-off source mutation to /repo, runs the check, and restores the file (also when interrupted).
set -u
f=/repo/$1; expr=$2; id=$3; only=${4:-}; tier=${5:-quick}
bak=/tmp/mutate.bak.$$
cp "$f" $bak
ev=/verif/evidence/$id.json
[ -f $ev ] && cp $ev $bak.ev
trap 'cp $bak "$f"; rm -f $bak; [ -f $bak.ev ] && mv $bak.ev $ev' EXIT INT TERM
perl -0pi -e "$expr" "$f"
if cmp -s "$f" $bak; then echo "MUTATION DID NOT APPLY"; exit 3; fi
(cd /repo && git diff --stat -- "$1" | tail -1)
cd /verif && ./bin/gosym run --check checks/$id.json --tier $tier ${only:+--only "$only"} 2>&1 | grep -E "VIOLATION|KNOWN|INCONCLUSIVE|violated|exit=" | head -12
