// gosym: symbolic execution of Go harnesses against /repo's current source.
//
//	gosym run --check checks/C19.json --tier quick
//	gosym replay --check checks/C19.json --replay replays/C19/1
package main

import (
	"encoding/json"
	"flag"
	"fmt"
	"os"
	"os/exec"
	"path/filepath"
	"regexp"
	"sort"
	"strconv"
	"strings"
	"sync"
	"time"

	"golang.org/x/tools/go/packages"
	"golang.org/x/tools/go/ssa"
	"golang.org/x/tools/go/ssa/ssautil"

	"verif/engine/sx"
	"verif/engine/term"
)

type PkgSpec struct {
	Path    string   `json:"path"`    // import path
	Dir     string   `json:"dir"`     // directory relative to the repo root
	Harness []string `json:"harness"` // harness files relative to /verif
	Name    string   `json:"name"`    // package name (default: last path element)
}

type Bounds struct {
	MaxSteps     int64  `json:"max_steps"`
	MaxPaths     int    `json:"max_paths"`
	MaxIndexFork int    `json:"max_index_fork"`
	WallS        int    `json:"wall_s"`
	TimeoutMs    int    `json:"timeout_ms"`
	Workers      int    `json:"workers"`
	Parallel     int    `json:"parallel"` // harnesses run concurrently
	Solver       string `json:"solver"`
	Solver2      string `json:"solver2"`
	SolverAlt    string `json:"solver_alt"`
	Mode         string `json:"mode"` // bv | int
	LoopBound    int    `json:"loop_bound"`
	Samples      int    `json:"samples"`
	OneShot      bool   `json:"oneshot"` // assertion queries in a fresh solver process
	OneShotAll   bool   `json:"oneshot_all"`
	IfConv       bool   `json:"ifconv"` // merge pure diamonds into ite terms
	XorNF        bool   `json:"xornf"`  // xor normal form for GF(2)-linear terms
	Only         string `json:"only"` // regexp restricting harness names for this tier
	Skip         string `json:"skip"`
}

type Override struct {
	Match     string            `json:"match"`
	FuncStubs map[string]string `json:"func_stubs"` // additional stubs for the matching harnesses only
	Summarize []string          `json:"summarize"`
	Bounds
}

type Check struct {
	Property    string     `json:"property"`
	Title       string     `json:"title"`
	Packages    []PkgSpec  `json:"packages"`
	Quick       Bounds     `json:"quick"`
	Thorough    Bounds     `json:"thorough"`
	Overrides   []Override `json:"overrides"`
	NoInit      []string   `json:"no_init"`
	ForceInit   []string   `json:"force_init"`
	Summarize   []string   `json:"summarize"`
	AlsoPrefixes []string  `json:"also_harness_prefixes"` // harness functions of another property's harness file that this check also runs
	FuncStubs   map[string]string `json:"func_stubs"`
	Assumptions []string   `json:"assumptions"`
	Stubs       []string   `json:"stubs"`
	BoundsText  string     `json:"bounds_text"`
	Outside     []string   `json:"outside"`
	Level       string     `json:"level"`
	ExtraFiles  []struct {
		Virtual string `json:"virtual"` // path relative to the repo root
		Real    string `json:"real"`    // path relative to /verif
	} `json:"extra_files"`
}

type Known struct {
	Property string `json:"property"`
	Kind     string `json:"kind"` // known | fixed
	Harness  string `json:"harness"`
	Label    string `json:"label"`
	What     string `json:"what"`
	Commit   string `json:"commit,omitempty"`
}

var (
	verifRoot = "/verif"
	repoRoot  = "/repo"
)

func goEnv() []string {
	env := os.Environ()
	tc := "/root/go/pkg/mod/golang.org/toolchain@v0.0.1-go1.25.9.linux-amd64/bin"
	out := []string{}
	for _, e := range env {
		if strings.HasPrefix(e, "PATH=") || strings.HasPrefix(e, "GOFLAGS=") || strings.HasPrefix(e, "GOTOOLCHAIN=") ||
			strings.HasPrefix(e, "GOPROXY=") || strings.HasPrefix(e, "GOSUMDB=") || strings.HasPrefix(e, "GOWORK=") {
			continue
		}
		out = append(out, e)
	}
	_ = tc
	out = append(out, "PATH="+os.Getenv("PATH"), "GOFLAGS=-mod=mod", "GOTOOLCHAIN=local", "GOPROXY=off", "GOWORK=off")
	return out
}

func fatal(format string, a ...any) {
	fmt.Fprintf(os.Stderr, format+"\n", a...)
	os.Exit(2)
}

func main() {
	if len(os.Args) < 2 {
		fatal("usage: gosym run|replay ...")
	}
	os.Setenv("PATH", "/root/go/pkg/mod/golang.org/toolchain@v0.0.1-go1.25.9.linux-amd64/bin:"+os.Getenv("PATH"))
	if v := os.Getenv("VERIF_ROOT"); v != "" {
		verifRoot = v
	}
	if v := os.Getenv("VERIF_REPO"); v != "" {
		repoRoot = v
	}
	switch os.Args[1] {
	case "run":
		fs := flag.NewFlagSet("run", flag.ExitOnError)
		check := fs.String("check", "", "check config")
		tier := fs.String("tier", "quick", "quick|thorough")
		only := fs.String("only", "", "regexp restricting harness names")
		verbose := fs.Bool("v", false, "verbose")
		novalidate := fs.Bool("novalidate", false, "skip native validation of sampled paths")
		fs.Parse(os.Args[2:])
		os.Exit(run(*check, *tier, *only, *verbose, *novalidate))
	case "replay":
		fs := flag.NewFlagSet("replay", flag.ExitOnError)
		check := fs.String("check", "", "check config")
		dir := fs.String("replay", "", "replay directory")
		fs.Parse(os.Args[2:])
		os.Exit(replayCmd(*check, *dir))
	default:
		fatal("unknown command %s", os.Args[1])
	}
}

func loadCheck(path string) *Check {
	data, err := os.ReadFile(path)
	if err != nil {
		fatal("read check: %v", err)
	}
	var c Check
	if err := json.Unmarshal(data, &c); err != nil {
		fatal("parse %s: %v", path, err)
	}
	for k := range c.Packages {
		if c.Packages[k].Name == "" {
			c.Packages[k].Name = filepath.Base(c.Packages[k].Path)
		}
		if c.Packages[k].Dir == "" {
			c.Packages[k].Dir = strings.TrimPrefix(c.Packages[k].Path, "github.com/gnolang/gno/")
		}
	}
	return &c
}

// overlayFiles returns virtual path -> real path for harness + runtime files.
func overlayFiles(c *Check, workDir string, withTest map[string][]string) map[string]string {
	ov := map[string]string{}
	tmpl, err := os.ReadFile(filepath.Join(verifRoot, "harness/rt/zz_verif_rt.go.tmpl"))
	if err != nil {
		fatal("rt template: %v", err)
	}
	os.MkdirAll(workDir, 0o755)
	for _, p := range c.Packages {
		for _, h := range p.Harness {
			ov[filepath.Join(repoRoot, p.Dir, filepath.Base(h))] = filepath.Join(verifRoot, h)
		}
		rt := strings.ReplaceAll(string(tmpl), "PKGNAME", p.Name)
		rtPath := filepath.Join(workDir, "rt_"+p.Name+".go")
		os.WriteFile(rtPath, []byte(rt), 0o644)
		ov[filepath.Join(repoRoot, p.Dir, "zz_verif_rt.go")] = rtPath
		if names, ok := withTest[p.Path]; ok {
			var sb strings.Builder
			sb.WriteString("package " + p.Name + "\n\nimport \"testing\"\n\nfunc TestVerifReplay(t *testing.T) {\n\tverifRunVectors(map[string]func(){\n")
			for _, n := range names {
				fmt.Fprintf(&sb, "\t\t%q: %s,\n", n, n)
			}
			sb.WriteString("\t})\n}\n")
			tp := filepath.Join(workDir, "replay_"+p.Name+"_test.go")
			os.WriteFile(tp, []byte(sb.String()), 0o644)
			ov[filepath.Join(repoRoot, p.Dir, "zz_verif_replay_test.go")] = tp
		}
	}
	for _, e := range c.ExtraFiles {
		real := filepath.Join(verifRoot, e.Real)
		if filepath.IsAbs(e.Real) {
			real = e.Real // a file of the repository itself, presented under another name
		}
		ov[filepath.Join(repoRoot, e.Virtual)] = real
	}
	return ov
}

type loaded struct {
	prog      *ssa.Program
	harnesses []*ssa.Function
	pkgOf     map[string]string // harness name -> package path
	loadS     float64
}

func load(c *Check, ov map[string]string) (*loaded, error) {
	start := time.Now()
	overlay := map[string][]byte{}
	for v, r := range ov {
		data, err := os.ReadFile(r)
		if err != nil {
			return nil, err
		}
		overlay[v] = data
	}
	var patterns []string
	for _, p := range c.Packages {
		patterns = append(patterns, p.Path)
	}
	cfg := &packages.Config{
		Mode: packages.NeedName | packages.NeedFiles | packages.NeedCompiledGoFiles | packages.NeedImports | packages.NeedDeps |
			packages.NeedTypes | packages.NeedSyntax | packages.NeedTypesInfo | packages.NeedTypesSizes,
		Dir:     repoRoot,
		Env:     goEnv(),
		Overlay: overlay,
	}
	pkgs, err := packages.Load(cfg, patterns...)
	if err != nil {
		return nil, err
	}
	var errs []string
	packages.Visit(pkgs, nil, func(p *packages.Package) {
		for _, e := range p.Errors {
			errs = append(errs, e.Error())
		}
	})
	if len(errs) > 0 {
		if len(errs) > 10 {
			errs = errs[:10]
		}
		return nil, fmt.Errorf("package errors (harness no longer compiles against the tree?):\n%s", strings.Join(errs, "\n"))
	}
	prog, spkgs := ssautil.AllPackages(pkgs, ssa.InstantiateGenerics)
	prog.Build()
	l := &loaded{prog: prog, pkgOf: map[string]string{}}
	prefix := "Verif" + c.Property + "_"
	for k, sp := range spkgs {
		if sp == nil {
			continue
		}
		var names []string
		for name, m := range sp.Members {
			if _, ok := m.(*ssa.Function); ok {
				hit := strings.HasPrefix(name, prefix)
				for _, ap := range c.AlsoPrefixes {
					hit = hit || strings.HasPrefix(name, ap)
				}
				if hit {
					names = append(names, name)
				}
			}
		}
		sort.Strings(names)
		for _, n := range names {
			l.harnesses = append(l.harnesses, sp.Func(n))
			l.pkgOf[n] = pkgs[k].PkgPath
		}
	}
	l.loadS = time.Since(start).Seconds()
	return l, nil
}

func pick(tier string, c *Check) Bounds {
	if tier == "thorough" {
		b := c.Thorough
		q := c.Quick
		// thorough inherits unset fields from quick
		if b.MaxSteps == 0 {
			b.MaxSteps = q.MaxSteps
		}
		if b.MaxPaths == 0 {
			b.MaxPaths = q.MaxPaths
		}
		if b.MaxIndexFork == 0 {
			b.MaxIndexFork = q.MaxIndexFork
		}
		if b.WallS == 0 {
			b.WallS = q.WallS
		}
		if b.TimeoutMs == 0 {
			b.TimeoutMs = q.TimeoutMs
		}
		if b.Workers == 0 {
			b.Workers = q.Workers
		}
		if b.Parallel == 0 {
			b.Parallel = q.Parallel
		}
		if b.Solver == "" {
			b.Solver = q.Solver
		}
		if b.Solver2 == "" {
			b.Solver2 = q.Solver2
		}
		if b.Mode == "" {
			b.Mode = q.Mode
		}
		if b.SolverAlt == "" {
			b.SolverAlt = q.SolverAlt
		}
		if q.OneShot {
			b.OneShot = true
		}
		if q.OneShotAll {
			b.OneShotAll = true
		}
		if b.LoopBound == 0 {
			b.LoopBound = q.LoopBound
		}
		if b.Samples == 0 {
			b.Samples = q.Samples
		}
		return b
	}
	return c.Quick
}

func merge(b Bounds, o Bounds) Bounds {
	if o.MaxSteps != 0 {
		b.MaxSteps = o.MaxSteps
	}
	if o.MaxPaths != 0 {
		b.MaxPaths = o.MaxPaths
	}
	if o.MaxIndexFork != 0 {
		b.MaxIndexFork = o.MaxIndexFork
	}
	if o.WallS != 0 {
		b.WallS = o.WallS
	}
	if o.TimeoutMs != 0 {
		b.TimeoutMs = o.TimeoutMs
	}
	if o.Workers != 0 {
		b.Workers = o.Workers
	}
	if o.Solver != "" {
		b.Solver = o.Solver
	}
	if o.Solver2 != "" {
		b.Solver2 = o.Solver2
	}
	if o.Mode != "" {
		b.Mode = o.Mode
	}
	if o.SolverAlt != "" {
		b.SolverAlt = o.SolverAlt
	}
	if o.OneShot {
		b.OneShot = true
	}
	if o.OneShotAll {
		b.OneShotAll = true
	}
	if o.IfConv {
		b.IfConv = true
	}
	if o.XorNF {
		b.XorNF = true
	}
	if o.LoopBound != 0 {
		b.LoopBound = o.LoopBound
	}
	if o.Samples != 0 {
		b.Samples = o.Samples
	}
	return b
}

func toConfig(b Bounds, c *Check, tier string) *sx.Config {
	cfg := &sx.Config{
		MaxSteps: b.MaxSteps, MaxPaths: b.MaxPaths, MaxIndexFork: b.MaxIndexFork, WallS: b.WallS, TimeoutMs: b.TimeoutMs,
		Workers: b.Workers, Solver: b.Solver, Solver2: b.Solver2, LoopBound: b.LoopBound, SampleModels: b.Samples,
		NoInit: c.NoInit, ForceInit: c.ForceInit, Summarize: c.Summarize, FuncStubs: c.FuncStubs, Thorough: tier == "thorough",
	}
	if b.Mode == "int" {
		cfg.Mode = term.ModeInt
	}
	cfg.NoModelGuide = os.Getenv("VERIF_MODEL_GUIDE") == "" // measured: 11-17% fewer queries, no wall-clock gain (get-value cost); off unless asked for
	cfg.IfConv = b.IfConv
	cfg.XorNF = b.XorNF
	cfg.OneShot = b.OneShot || b.OneShotAll
	cfg.SolverAlt = b.SolverAlt
	cfg.OneShotAll = b.OneShotAll
	return cfg
}

type nativeResult struct {
	Idx     int      `json:"idx"`
	Status  string   `json:"status"`
	Panic   string   `json:"panic"`
	Fails   []string `json:"fails"`
	Reach   []string `json:"reach"`
	Asserts int      `json:"asserts"`
}

type vector struct {
	Harness string            `json:"harness"`
	Vals    map[string]string `json:"vals"`
}

// runNative runs the vectors against the natively compiled harnesses of one package.
func runNative(c *Check, pkgPath string, names []string, vecs []vector, workDir string, tier string) ([]nativeResult, string, error) {
	ov := overlayFiles(c, workDir, map[string][]string{pkgPath: names})
	ovJSON, _ := json.Marshal(map[string]any{"Replace": ov})
	ovPath := filepath.Join(workDir, "overlay.json")
	os.WriteFile(ovPath, ovJSON, 0o644)
	vecPath := filepath.Join(workDir, "vectors_"+filepath.Base(pkgPath)+".json")
	data, _ := json.MarshalIndent(vecs, "", " ")
	os.WriteFile(vecPath, data, 0o644)
	cmd := exec.Command("go", "test", "-vet=off", "-count=1", "-timeout", "20m", "-overlay", ovPath, "-run", "^TestVerifReplay$", "-v", pkgPath)
	cmd.Dir = repoRoot
	cmd.Env = append(goEnv(), "VERIF_REPLAY="+vecPath, "VERIF_TIER="+tier)
	var out []byte
	var err error
	pkgDir := ""
	for _, p := range c.Packages {
		if p.Path == pkgPath {
			pkgDir = filepath.Join(repoRoot, p.Dir)
		}
	}
	if _, serr := os.Stat(pkgDir); pkgDir != "" && serr != nil {
		// the package exists only in the overlay (no directory to run the test
		// in): build the test binary and run it from the repository root
		bin := filepath.Join(workDir, "replay_"+filepath.Base(pkgPath)+".test")
		build := exec.Command("go", "test", "-vet=off", "-c", "-o", bin, "-overlay", ovPath, pkgPath)
		build.Dir = repoRoot
		build.Env = goEnv()
		if bout, berr := build.CombinedOutput(); berr != nil {
			return nil, string(bout), fmt.Errorf("building the replay test binary: %v", berr)
		}
		run := exec.Command(bin, "-test.run", "^TestVerifReplay$", "-test.v", "-test.timeout", "20m")
		run.Dir = repoRoot
		run.Env = append(goEnv(), "VERIF_REPLAY="+vecPath, "VERIF_TIER="+tier)
		out, err = run.CombinedOutput()
		os.Remove(bin)
	} else {
		out, err = cmd.CombinedOutput()
	}
	var res []nativeResult
	for _, line := range strings.Split(string(out), "\n") {
		if k := strings.Index(line, "VERIF-RESULT "); k >= 0 {
			var r nativeResult
			if json.Unmarshal([]byte(line[k+len("VERIF-RESULT "):]), &r) == nil {
				res = append(res, r)
			}
		}
	}
	if len(res) != len(vecs) {
		return res, string(out), fmt.Errorf("native run produced %d results for %d vectors (err=%v)", len(res), len(vecs), err)
	}
	return res, string(out), nil
}

func loadKnown() []Known {
	var ks []Known
	data, err := os.ReadFile(filepath.Join(verifRoot, "known_findings.jsonl"))
	if err != nil {
		return nil
	}
	for _, line := range strings.Split(string(data), "\n") {
		line = strings.TrimSpace(line)
		if line == "" || strings.HasPrefix(line, "#") {
			continue
		}
		var k Known
		if json.Unmarshal([]byte(line), &k) == nil {
			ks = append(ks, k)
		}
	}
	return ks
}

func matchKnown(ks []Known, prop, harness, label string) *Known {
	for k := range ks {
		e := &ks[k]
		if e.Property != prop || e.Kind != "known" {
			continue
		}
		if ok, _ := regexp.MatchString("^(?:"+e.Harness+")$", harness); !ok {
			continue
		}
		if e.Label == label {
			return e
		}
	}
	return nil
}

func sameStrings(a, b []string) bool {
	if len(a) != len(b) {
		return false
	}
	for k := range a {
		if a[k] != b[k] {
			return false
		}
	}
	return true
}

func run(checkPath, tier, only string, verbose, novalidate bool) int {
	start := time.Now()
	c := loadCheck(checkPath)
	seed, _ := strconv.Atoi(os.Getenv("VERIF_SEED"))
	workDir := filepath.Join(verifRoot, "work", c.Property)
	os.RemoveAll(workDir)
	os.MkdirAll(workDir, 0o755)
	evPath := filepath.Join(verifRoot, "evidence", c.Property+".json")
	os.MkdirAll(filepath.Dir(evPath), 0o755)
	os.Remove(evPath)

	b := pick(tier, c)
	l, err := load(c, overlayFiles(c, workDir, nil))
	if err != nil {
		fmt.Printf("INCONCLUSIVE property=%s load: %v\n", c.Property, err)
		writeEvidence(evPath, c, tier, seed, nil, nil, 0, time.Since(start), []string{"load failed: " + err.Error()}, 0, nil, 0)
		return 2
	}
	var hs []*ssa.Function
	for _, h := range l.harnesses {
		if only != "" {
			if ok, _ := regexp.MatchString(only, h.Name()); !ok {
				continue
			}
		}
		if b.Only != "" {
			if ok, _ := regexp.MatchString(b.Only, h.Name()); !ok {
				continue
			}
		}
		if b.Skip != "" {
			if ok, _ := regexp.MatchString(b.Skip, h.Name()); ok {
				continue
			}
		}
		hs = append(hs, h)
	}
	if len(hs) == 0 {
		fmt.Printf("INCONCLUSIVE property=%s no harness functions found\n", c.Property)
		return 2
	}
	fmt.Printf("property=%s tier=%s harnesses=%d load=%.1fs\n", c.Property, tier, len(hs), l.loadS)

	par := b.Parallel
	if par == 0 {
		par = 1
	}
	results := make([]*sx.HarnessResult, len(hs))
	sem := make(chan struct{}, par)
	var wg sync.WaitGroup
	for k, h := range hs {
		wg.Add(1)
		sem <- struct{}{}
		go func(k int, h *ssa.Function) {
			defer wg.Done()
			defer func() { <-sem }()
			hb := b
			stubs := map[string]string{}
			for k, v := range c.FuncStubs {
				stubs[k] = v
			}
			summ := append([]string(nil), c.Summarize...)
			for _, o := range c.Overrides {
				if ok, _ := regexp.MatchString(o.Match, h.Name()); ok {
					hb = merge(hb, o.Bounds)
					for k, v := range o.FuncStubs {
						stubs[k] = v
					}
					summ = append(summ, o.Summarize...)
				}
			}
			cfg := toConfig(hb, c, tier)
			cfg.FuncStubs = stubs
			cfg.Summarize = summ
			cfg.Verbose = verbose
			eng := &sx.Engine{Prog: l.prog, Cfg: cfg}
			results[k] = eng.RunHarness(h)
			r := results[k]
			fmt.Printf("  %-40s paths=%d pruned=%d oblig=%d discharged=%d viol=%d inconcl=%d queries=%d solver=%.1fs wall=%.1fs\n",
				r.Name, r.Paths, r.PathsPruned, r.Obligations, r.Discharged, len(r.Violations), len(r.Inconclusive), r.SolverQueries, r.SolverTime.Seconds(), r.Wall.Seconds())
		}(k, h)
	}
	wg.Wait()

	var inconclusive []string
	for _, r := range results {
		for _, m := range r.Inconclusive {
			inconclusive = append(inconclusive, r.Name+": "+m)
		}
		if len(r.Reach) == 0 && len(r.Violations) == 0 {
			inconclusive = append(inconclusive, r.Name+": vacuous harness (no reach label on any path)")
		}
	}

	// ---- native validation of sampled paths, and replay of violations
	known := loadKnown()
	validated := 0
	exit := 0
	var knownHit []string
	var violLines []string
	byPkg := map[string][]vector{}
	type expect struct {
		res    *sx.HarnessResult
		sample *sx.PathSample
		viol   *sx.Violation
	}
	exp := map[string][]expect{}
	names := map[string][]string{}
	for _, h := range l.harnesses {
		names[l.pkgOf[h.Name()]] = append(names[l.pkgOf[h.Name()]], h.Name())
	}
	for _, r := range results {
		pp := l.pkgOf[r.Name]
		if !novalidate {
			for k := range r.Samples {
				s := &r.Samples[k]
				byPkg[pp] = append(byPkg[pp], vector{Harness: r.Name, Vals: s.Vector})
				exp[pp] = append(exp[pp], expect{res: r, sample: s})
			}
		}
		for _, v := range r.Violations {
			byPkg[pp] = append(byPkg[pp], vector{Harness: r.Name, Vals: v.Vector})
			exp[pp] = append(exp[pp], expect{res: r, viol: v})
		}
	}
	nviol := 0
	for pp, vecs := range byPkg {
		nres, out, err := runNative(c, pp, names[pp], vecs, workDir, tier)
		if err != nil {
			inconclusive = append(inconclusive, "native run failed for "+pp+": "+err.Error()+"\n"+tail(out, 30))
			continue
		}
		seen := map[string]bool{}
		unconfirmed := map[string][]string{}
		for k, e := range exp[pp] {
			nr := nres[k]
			if e.sample != nil {
				ok := nr.Status == "ok" && len(nr.Fails) == 0 && sameStrings(nr.Reach, e.sample.Reach) && nr.Asserts == len(e.sample.Asserts)
				if e.sample.Panic != "" {
					ok = nr.Status == "panic"
				}
				// a sampled path that carries a violation label is judged with the violations below
				if ok {
					validated++
				} else if !pathHasViolation(e.res, e.sample) {
					inconclusive = append(inconclusive, fmt.Sprintf("%s: translator validation mismatch: engine reach=%v asserts=%d, native %+v vector=%v",
						e.res.Name, e.sample.Reach, len(e.sample.Asserts), nr, e.sample.Vector))
				}
				continue
			}
			v := e.viol
			key := v.Harness + "|" + v.Label
			confirmed := false
			if v.Label == "uncaught-panic" {
				confirmed = nr.Status == "panic"
			} else {
				for _, f := range nr.Fails {
					if f == v.Label {
						confirmed = true
					}
				}
			}
			if !confirmed {
				if !seen[key+"|unconfirmed"] {
					seen[key+"|unconfirmed"] = true
					unconfirmed[key] = append(unconfirmed[key], fmt.Sprintf("%s: model for %q did not reproduce natively (engine: %s at %s; native %+v, vector %v)", v.Harness, v.Label, v.Panic, v.Where, nr, clip(fmt.Sprint(v.Vector), 400)))
				}
				continue
			}
			if seen[key] {
				continue
			}
			seen[key] = true
			if kf := matchKnown(known, c.Property, v.Harness, v.Label); kf != nil {
				line := fmt.Sprintf("KNOWN-FINDING: property=%s %s [%s / %s]", c.Property, kf.What, v.Harness, v.Label)
				fmt.Println(line)
				knownHit = append(knownHit, line)
				continue
			}
			nviol++
			dir := filepath.Join(verifRoot, "replays", c.Property, fmt.Sprintf("%s-%d", tier, nviol))
			os.RemoveAll(dir)
			os.MkdirAll(dir, 0o755)
			vj, _ := json.MarshalIndent(map[string]any{"property": c.Property, "harness": v.Harness, "label": v.Label, "where": v.Where,
				"panic": v.Panic, "native": nr, "vector": v.Vector, "package": pp, "check": checkPath}, "", " ")
			os.WriteFile(filepath.Join(dir, "violation.json"), vj, 0o644)
			vs, _ := json.MarshalIndent([]vector{{Harness: v.Harness, Vals: v.Vector}}, "", " ")
			os.WriteFile(filepath.Join(dir, "vectors.json"), vs, 0o644)
			line := fmt.Sprintf("VIOLATION property=%s replay=%s", c.Property, dir)
			fmt.Printf("  violated: %s / %q at %s vector=%v native=%+v\n", v.Harness, v.Label, v.Where, v.Vector, nr)
			fmt.Println(line)
			violLines = append(violLines, line)
			exit = 1
		}
		// a model that did not reproduce is inconclusive only when no other
		// witness of the same assertion reproduced
		for key, msgs := range unconfirmed {
			if !seen[key] {
				inconclusive = append(inconclusive, msgs...)
			}
		}
	}
	inconclusive = dedupe(inconclusive)
	for k, m := range inconclusive {
		if k >= 12 {
			fmt.Printf("INCONCLUSIVE property=%s ... and %d more\n", c.Property, len(inconclusive)-k)
			break
		}
		if len(m) > 1200 {
			m = m[:1200] + "…"
		}
		fmt.Printf("INCONCLUSIVE property=%s %s\n", c.Property, m)
	}
	if exit == 0 && len(inconclusive) > 0 {
		exit = 2
	}
	writeEvidence(evPath, c, tier, seed, results, &b, validated, time.Since(start), inconclusive, nviol, knownHit, l.loadS)
	fmt.Printf("property=%s tier=%s exit=%d wall=%.1fs\n", c.Property, tier, exit, time.Since(start).Seconds())
	return exit
}

func pathHasViolation(r *sx.HarnessResult, s *sx.PathSample) bool {
	for _, v := range r.Violations {
		for _, a := range s.Asserts {
			if a == v.Label {
				return true
			}
		}
		if v.Label == "uncaught-panic" && s.Panic != "" {
			return true
		}
	}
	return false
}

func dedupe(in []string) []string {
	seen := map[string]bool{}
	var out []string
	for _, s := range in {
		if !seen[s] {
			seen[s] = true
			out = append(out, s)
		}
	}
	return out
}

func tail(s string, n int) string {
	ls := strings.Split(strings.TrimSpace(s), "\n")
	if len(ls) > n {
		ls = ls[len(ls)-n:]
	}
	return strings.Join(ls, "\n")
}

func writeEvidence(path string, c *Check, tier string, seed int, results []*sx.HarnessResult, b *Bounds, validated int,
	wall time.Duration, inconclusive []string, nviol int, knownHit []string, loadS float64) {
	states, trans, obl, dis, disTriv, queries := 0, 0, 0, 0, 0, 0
	var solverS float64
	funcs := map[string]bool{}
	var samples []any
	var perHarness []any
	for _, r := range results {
		states += r.Paths
		trans += r.Decisions + r.Obligations
		obl += r.Obligations
		dis += r.Discharged
		disTriv += r.DischargedTriv
		queries += r.SolverQueries
		solverS += r.SolverTime.Seconds()
		for f := range r.Funcs {
			funcs[f] = true
		}
		if len(samples) < 12 && len(r.Samples) > 0 {
			s := r.Samples[0]
			samples = append(samples, map[string]any{"harness": r.Name, "input_vector": s.Vector, "reach": s.Reach, "assertions_on_path": s.Asserts})
		}
		perHarness = append(perHarness, map[string]any{"harness": r.Name, "paths": r.Paths, "pruned_by_assume": r.PathsPruned, "branch_decisions": r.Decisions,
			"obligations": r.Obligations, "discharged": r.Discharged, "violations": len(r.Violations), "solver_queries": r.SolverQueries,
			"solver_time_s": round2(r.SolverTime.Seconds()), "wall_s": round2(r.Wall.Seconds()), "ssa_instructions_executed": r.Steps, "reach": r.Reach})
	}
	if len(samples) == 0 {
		samples = append(samples, "no completed path")
	}
	var fl []string
	for f := range funcs {
		if !strings.Contains(f, "verif") {
			fl = append(fl, f)
		}
	}
	sort.Strings(fl)
	if len(fl) > 400 {
		fl = append(fl[:400], fmt.Sprintf("... and %d more", len(fl)-400))
	}
	level := c.Level
	if level == "" {
		level = "model_checking"
	}
	cov := map[string]any{
		"states":                        states,
		"transitions":                   trans,
		"traces_validated_against_impl": validated,
		"samples":                       samples,
		"obligations":                   obl,
		"discharged":                    dis,
		"discharged_without_solver":     disTriv,
		"solver_queries":                queries,
		"solver_time_s":                 round2(solverS),
		"load_and_ssa_build_s":          round2(loadS),
		"functions_encoded":             fl,
		"functions_encoded_count":       len(funcs),
		"per_harness":                   perHarness,
		"inconclusive":                  inconclusive,
		"known_findings_hit":            knownHit,
		"bounds":                        c.BoundsText,
		"outside_the_claim":             c.Outside,
		"stubs":                         c.Stubs,
		"rule": "states = symbolic paths explored to completion (each is a set of inputs characterised by its path condition); transitions = solver-decided branch decisions plus assertion queries; " +
			"an obligation is one verifAssert reached on one path, discharged when the solver answers unsat for (path condition AND NOT assertion); " +
			"traces_validated_against_impl = sampled path models replayed on the natively compiled code with identical assertion/reach outcome",
		"exhaustive": len(inconclusive) == 0,
	}
	if b != nil {
		cov["engine_bounds"] = b
	}
	ev := map[string]any{
		"property_id": c.Property,
		"tier":        tier,
		"seed":        seed,
		"level":       level,
		"coverage":    cov,
		"assumptions": c.Assumptions,
		"wall_s":      round2(wall.Seconds()),
		"violations":  nviol,
	}
	if ev["assumptions"] == nil {
		ev["assumptions"] = []string{}
	}
	data, _ := json.MarshalIndent(ev, "", " ")
	os.WriteFile(path, data, 0o644)
}

func clip(s string, n int) string {
	if len(s) > n {
		return s[:n] + "..."
	}
	return s
}

func round2(f float64) float64 { return float64(int64(f*100+0.5)) / 100 }

func replayCmd(checkPath, dir string) int {
	c := loadCheck(checkPath)
	data, err := os.ReadFile(filepath.Join(dir, "violation.json"))
	if err != nil {
		fatal("read violation: %v", err)
	}
	var v struct {
		Harness string            `json:"harness"`
		Label   string            `json:"label"`
		Vector  map[string]string `json:"vector"`
		Package string            `json:"package"`
	}
	json.Unmarshal(data, &v)
	workDir := filepath.Join(verifRoot, "work", c.Property+"-replay")
	os.MkdirAll(workDir, 0o755)
	res, out, err := runNative(c, v.Package, []string{v.Harness}, []vector{{Harness: v.Harness, Vals: v.Vector}}, workDir, "quick")
	fmt.Println(tail(out, 40))
	if err != nil {
		fmt.Println("replay error:", err)
		return 2
	}
	fmt.Printf("native result: %+v\n", res[0])
	if res[0].Status == "panic" || len(res[0].Fails) > 0 {
		fmt.Printf("VIOLATION property=%s replay=%s\n", c.Property, dir)
		return 1
	}
	return 0
}
