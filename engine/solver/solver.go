// Package solver drives long-lived SMT solver processes (z3, z3-new, cvc5)
// over stdin/stdout.
package solver

import (
	"bufio"
	"fmt"
	"io"
	"math/big"
	"os/exec"
	"strings"
	"time"
)

type Result int

const (
	Unknown Result = iota
	Sat
	Unsat
)

func (r Result) String() string { return [...]string{"unknown", "sat", "unsat"}[r] }

type Solver struct {
	Kind    string
	cmd     *exec.Cmd
	in      io.WriteCloser
	out     *bufio.Reader
	Queries int
	Time    time.Duration
	Errors  []string
	Log     io.Writer // optional transcript
	dead    bool
}

// Start launches a solver. kind is one of z3, z3-new, cvc5.
func Start(kind string, timeoutMs int) (*Solver, error) {
	var cmd *exec.Cmd
	switch kind {
	case "z3":
		cmd = exec.Command("z3", "-in", fmt.Sprintf("-t:%d", timeoutMs))
	case "z3-new":
		cmd = exec.Command("z3-new", "-in", fmt.Sprintf("-t:%d", timeoutMs))
	case "cvc5":
		cmd = exec.Command("cvc5", "--incremental", "--produce-models", "--lang=smt2", fmt.Sprintf("--tlimit-per=%d", timeoutMs))
	default:
		return nil, fmt.Errorf("unknown solver %q", kind)
	}
	in, err := cmd.StdinPipe()
	if err != nil {
		return nil, err
	}
	out, err := cmd.StdoutPipe()
	if err != nil {
		return nil, err
	}
	cmd.Stderr = cmd.Stdout
	if err := cmd.Start(); err != nil {
		return nil, err
	}
	s := &Solver{Kind: kind, cmd: cmd, in: in, out: bufio.NewReaderSize(out, 1<<16)}
	if kind == "cvc5" {
		s.Send("(set-logic ALL)\n")
	} else {
		s.Send("(set-option :produce-models true)\n")
	}
	return s, nil
}

func (s *Solver) Send(text string) {
	if s.dead {
		return
	}
	if s.Log != nil {
		io.WriteString(s.Log, text)
	}
	if _, err := io.WriteString(s.in, text); err != nil {
		s.dead = true
		s.Errors = append(s.Errors, "write: "+err.Error())
	}
}

func (s *Solver) readLine() (string, bool) {
	line, err := s.out.ReadString('\n')
	if err != nil {
		s.dead = true
		s.Errors = append(s.Errors, "solver exited: "+err.Error()+" "+line)
		return line, false
	}
	return strings.TrimSpace(line), true
}

// Check runs (check-sat) or (check-sat-assuming (lit)).
func (s *Solver) Check(assuming string) Result {
	start := time.Now()
	defer func() { s.Time += time.Since(start); s.Queries++ }()
	if assuming == "" {
		s.Send("(check-sat)\n")
	} else {
		s.Send("(check-sat-assuming (" + assuming + "))\n")
	}
	nerr := len(s.Errors)
	for {
		line, ok := s.readLine()
		if !ok {
			return Unknown
		}
		switch {
		case line == "sat":
			if len(s.Errors) > nerr {
				return Unknown
			}
			return Sat
		case line == "unsat":
			if len(s.Errors) > nerr {
				return Unknown
			}
			return Unsat
		case line == "unknown" || line == "timeout":
			return Unknown
		case line == "":
		case strings.HasPrefix(line, "(error"):
			s.Errors = append(s.Errors, line)
			// cvc5 stops after an error in non-interactive mode; keep reading
		default:
			// warnings etc.
			if strings.Contains(line, "rror") {
				s.Errors = append(s.Errors, line)
			}
		}
	}
}

func (s *Solver) Push() { s.Send("(push 1)\n") }
func (s *Solver) Pop()  { s.Send("(pop 1)\n") }

func (s *Solver) Alive() bool { return !s.dead }

// Values asks for the values of the given constant names after a sat answer.
// Results are big integers (Bool: 0/1; bit-vectors unsigned).
func (s *Solver) Values(names []string) (map[string]*big.Int, error) {
	res := map[string]*big.Int{}
	for i := 0; i < len(names); i += 64 {
		j := min(i+64, len(names))
		s.Send("(get-value (" + strings.Join(names[i:j], " ") + "))\n")
		txt, err := s.readSexp()
		if err != nil {
			return nil, err
		}
		if err := parseValues(txt, res); err != nil {
			return nil, fmt.Errorf("%v in %q", err, txt)
		}
	}
	return res, nil
}

func (s *Solver) readSexp() (string, error) {
	var sb strings.Builder
	depth, started := 0, false
	for {
		line, ok := s.readLine()
		if !ok {
			return "", fmt.Errorf("solver died")
		}
		if !started && strings.HasPrefix(line, "(error") {
			s.Errors = append(s.Errors, line)
			return "", fmt.Errorf("%s", line)
		}
		for _, ch := range line {
			if ch == '(' {
				depth++
				started = true
			} else if ch == ')' {
				depth--
			}
		}
		sb.WriteString(line)
		sb.WriteString(" ")
		if started && depth <= 0 {
			return sb.String(), nil
		}
	}
}

type sx struct {
	atom string
	list []*sx
}

func parseSx(s string, pos *int) (*sx, error) {
	for *pos < len(s) && (s[*pos] == ' ' || s[*pos] == '\n' || s[*pos] == '\t') {
		*pos++
	}
	if *pos >= len(s) {
		return nil, fmt.Errorf("eof")
	}
	if s[*pos] == '(' {
		*pos++
		n := &sx{list: []*sx{}}
		for {
			for *pos < len(s) && (s[*pos] == ' ' || s[*pos] == '\n' || s[*pos] == '\t') {
				*pos++
			}
			if *pos >= len(s) {
				return nil, fmt.Errorf("eof in list")
			}
			if s[*pos] == ')' {
				*pos++
				return n, nil
			}
			c, err := parseSx(s, pos)
			if err != nil {
				return nil, err
			}
			n.list = append(n.list, c)
		}
	}
	st := *pos
	for *pos < len(s) && s[*pos] != ' ' && s[*pos] != '(' && s[*pos] != ')' && s[*pos] != '\n' {
		*pos++
	}
	return &sx{atom: s[st:*pos]}, nil
}

func sxValue(n *sx) (*big.Int, error) {
	if n.list == nil {
		a := n.atom
		switch {
		case a == "true":
			return big.NewInt(1), nil
		case a == "false":
			return big.NewInt(0), nil
		case strings.HasPrefix(a, "#x"):
			v, ok := new(big.Int).SetString(a[2:], 16)
			if !ok {
				return nil, fmt.Errorf("bad hex %s", a)
			}
			return v, nil
		case strings.HasPrefix(a, "#b"):
			v, ok := new(big.Int).SetString(a[2:], 2)
			if !ok {
				return nil, fmt.Errorf("bad bin %s", a)
			}
			return v, nil
		default:
			v, ok := new(big.Int).SetString(a, 10)
			if !ok {
				return nil, fmt.Errorf("bad value %s", a)
			}
			return v, nil
		}
	}
	l := n.list
	if len(l) == 2 && l[0].atom == "-" {
		v, err := sxValue(l[1])
		if err != nil {
			return nil, err
		}
		return v.Neg(v), nil
	}
	if len(l) == 3 && l[0].atom == "_" && strings.HasPrefix(l[1].atom, "bv") {
		v, ok := new(big.Int).SetString(l[1].atom[2:], 10)
		if !ok {
			return nil, fmt.Errorf("bad bv literal")
		}
		return v, nil
	}
	return nil, fmt.Errorf("unsupported value form")
}

// ParseValues parses the answer of (get-value (...)) into res.
func ParseValues(txt string, res map[string]*big.Int) error { return parseValues(txt, res) }

func parseValues(txt string, res map[string]*big.Int) error {
	pos := 0
	n, err := parseSx(txt, &pos)
	if err != nil {
		return err
	}
	for _, pair := range n.list {
		if len(pair.list) != 2 {
			return fmt.Errorf("bad pair")
		}
		v, err := sxValue(pair.list[1])
		if err != nil {
			return err
		}
		res[pair.list[0].atom] = v
	}
	return nil
}

func (s *Solver) Close() {
	if s.cmd == nil {
		return
	}
	s.Send("(exit)\n")
	s.in.Close()
	done := make(chan struct{})
	go func() { s.cmd.Wait(); close(done) }()
	select {
	case <-done:
	case <-time.After(2 * time.Second):
		s.cmd.Process.Kill()
	}
	s.cmd = nil
}

// Kill terminates the solver immediately (wall-clock budget exceeded).
func (s *Solver) Kill() {
	if s.cmd != nil && s.cmd.Process != nil {
		s.cmd.Process.Kill()
	}
	s.dead = true
}
