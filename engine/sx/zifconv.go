package sx

// If-conversion: an if/else whose arms are short, straight-line and free of
// side effects (arithmetic, loads, address computations) is executed on both
// arms and the join block's phis receive ite(cond, then-value, else-value)
// instead of forking the path.  Anything in an arm that would itself need a
// decision (bounds check on a symbolic index, division by a symbolic value,
// a possible nil dereference) or could panic abandons the attempt and the
// ordinary fork is taken, so the set of behaviours explored is unchanged.

import (
	"go/token"

	"golang.org/x/tools/go/ssa"

	"verif/engine/term"
)

type specAbort struct{}

type ifConvPlan struct {
	ok   bool
	join *ssa.BasicBlock
	arms [2]*ssa.BasicBlock // nil: the edge goes straight to the join block
}

const ifConvMaxInstrs = 32

func pureArm(b *ssa.BasicBlock) bool {
	if len(b.Preds) != 1 || len(b.Succs) != 1 || len(b.Instrs) == 0 || len(b.Instrs) > ifConvMaxInstrs {
		return false
	}
	for k, in := range b.Instrs {
		if k == len(b.Instrs)-1 {
			_, isJump := in.(*ssa.Jump)
			return isJump
		}
		switch in := in.(type) {
		case *ssa.BinOp, *ssa.Convert, *ssa.ChangeType, *ssa.IndexAddr, *ssa.FieldAddr, *ssa.Field, *ssa.Index, *ssa.Extract, *ssa.DebugRef:
		case *ssa.UnOp:
			if in.Op == token.ARROW {
				return false
			}
		default:
			return false
		}
	}
	return false
}

func planIfConv(b *ssa.BasicBlock) *ifConvPlan {
	p := &ifConvPlan{}
	t, f := b.Succs[0], b.Succs[1]
	if t == f {
		return p
	}
	pt, pf := pureArm(t), pureArm(f)
	switch {
	case pt && t.Succs[0] == f:
		p.join, p.arms = f, [2]*ssa.BasicBlock{t, nil}
	case pf && f.Succs[0] == t:
		p.join, p.arms = t, [2]*ssa.BasicBlock{nil, f}
	case pt && pf && t.Succs[0] == f.Succs[0]:
		p.join, p.arms = t.Succs[0], [2]*ssa.BasicBlock{t, f}
	default:
		return p
	}
	// every phi of the join must be mergeable: only scalars become ite terms
	p.ok = true
	return p
}

// ifConvert tries to execute the If at the end of fr.block without forking.
// On success fr.block is the join block with its phis prepared.
func (i *interp) ifConvert(fr *frame, instr *ssa.If, cond *term.T) bool {
	if i.ifPlans == nil {
		i.ifPlans = map[*ssa.If]*ifConvPlan{}
	}
	plan := i.ifPlans[instr]
	if plan == nil {
		plan = planIfConv(fr.block)
		i.ifPlans[instr] = plan
	}
	if !plan.ok {
		return false
	}
	// package initialisers triggered by a first use of a global must not run speculatively
	for _, arm := range plan.arms {
		if arm == nil {
			continue
		}
		for _, in := range arm.Instrs {
			for _, op := range in.Operands(nil) {
				if g, isG := (*op).(*ssa.Global); isG {
					i.globalAddr(g)
				}
			}
		}
	}
	cur := fr.block
	ok := func() (ok bool) {
		i.spec++
		defer func() {
			i.spec--
			if r := recover(); r != nil {
				switch r.(type) {
				case specAbort, targetPanic:
					ok = false
				default:
					panic(r)
				}
			}
		}()
		for _, arm := range plan.arms {
			if arm == nil {
				continue
			}
			for _, in := range arm.Instrs[:len(arm.Instrs)-1] {
				i.visitInstr(fr, in)
			}
		}
		return true
	}()
	i.curFrame = fr
	if !ok {
		return false
	}
	from := [2]*ssa.BasicBlock{cur, cur}
	for k, arm := range plan.arms {
		if arm != nil {
			from[k] = arm
		}
	}
	it, ie := -1, -1
	for k, p := range plan.join.Preds {
		if p == from[0] && it < 0 {
			it = k
		}
		if p == from[1] && (p != from[0] || k != it) {
			ie = k
		}
	}
	if it < 0 || ie < 0 || it == ie {
		return false
	}
	merged := map[*ssa.Phi]value{}
	for _, in := range plan.join.Instrs {
		phi, isPhi := in.(*ssa.Phi)
		if !isPhi {
			break
		}
		a, b := fr.get(phi.Edges[it]), fr.get(phi.Edges[ie])
		ta, okA := a.(*term.T)
		tb, okB := b.(*term.T)
		if !okA || !okB || ta == nil || tb == nil {
			return false
		}
		if ta == tb {
			merged[phi] = ta
			continue
		}
		if ta.W != tb.W {
			return false
		}
		if ta.W == 0 {
			merged[phi] = i.ctx.OrB(i.ctx.AndB(cond, ta), i.ctx.AndB(i.ctx.NotB(cond), tb))
		} else {
			merged[phi] = i.ctx.IteT(cond, ta, tb)
		}
	}
	fr.phiOverride = merged
	fr.prevBlock, fr.block = from[0], plan.join
	i.path.h.noteIfConv()
	return true
}
