package sx

import (
	"math/big"

	"verif/engine/solver"
	"verif/engine/term"
)

// Model-guided branching: the last satisfying assignment of the path condition
// is kept; a branch condition that evaluates to a constant under it is known
// to be feasible on that side without asking the solver, so only the other
// side is queried. The assignment is dropped as soon as a constraint is added
// that it does not satisfy. This only ever SKIPS a query whose answer (sat) is
// witnessed by the assignment; it never replaces an unsat answer.

type pathModel struct {
	vals map[string]*big.Int
	memo map[int]*term.T
}

func (i *interp) fetchModel() {
	p := i.path
	if i.cfg.OneShotAll || i.cfg.Concrete != nil || i.cfg.NoModelGuide {
		return
	}
	m, err := p.sess.model()
	if err != nil {
		p.model = nil
		return
	}
	p.model = &pathModel{vals: m, memo: map[int]*term.T{}}
}

// evalUnder evaluates t under the kept assignment; nil when it does not fold
// to a constant (uninterpreted functions, raw solver fragments, division by a
// zero constant ...).
func (i *interp) evalUnder(pm *pathModel, t *term.T) *term.T {
	if t.IsConst() {
		return t
	}
	if r, ok := pm.memo[t.ID]; ok {
		return r
	}
	var r *term.T
	switch t.Op {
	case term.Var:
		v, ok := pm.vals[t.Name]
		if !ok {
			v = new(big.Int) // not yet constrained: any value extends the assignment
			pm.vals[t.Name] = v
		}
		if t.W == 0 {
			r = i.ctx.Bool(v.Sign() != 0)
		} else if t.W == term.SortInt {
			r = i.ctx.Int(v)
		} else {
			x := new(big.Int).Set(v)
			if x.Sign() < 0 {
				x.Add(x, new(big.Int).Lsh(big.NewInt(1), uint(t.W)))
			}
			r = i.ctx.BVBig(t.W, x)
		}
	case term.UF, term.Raw:
		r = nil
	default:
		args := make([]*term.T, len(t.A))
		ok := true
		for k, a := range t.A {
			args[k] = i.evalUnder(pm, a)
			if args[k] == nil {
				ok = false
				break
			}
		}
		if ok {
			r = i.ctx.Rebuild(t, args)
			if !r.IsConst() {
				r = nil
			}
		}
	}
	pm.memo[t.ID] = r
	return r
}

// modelSays reports the truth value of cond under the kept assignment.
func (i *interp) modelSays(cond *term.T) (val, known bool) {
	p := i.path
	if p.model == nil {
		return false, false
	}
	r := i.evalUnder(p.model, cond)
	if r == nil {
		return false, false
	}
	return r.IsTrue(), true
}

var _ = solver.Sat
