// Package sx is a symbolic executor for go/ssa programs.
//
// Its structure (frames, instruction dispatch, defers/recover, boxed values)
// follows golang.org/x/tools/go/ssa/interp (BSD licence, see LICENSE.xtools);
// the value domain is different: booleans and all integer kinds are SMT terms
// (constants when concrete), strings and byte slices may carry symbolic bytes,
// maps are insertion-ordered association lists, and branching on a symbolic
// condition consults the solver and forks by deterministic re-execution.
package sx

import (
	"fmt"
	"go/types"
	"strings"

	"golang.org/x/tools/go/ssa"

	"verif/engine/term"
)

type value any

type tuple []value

type array []value

type structure []value

type iface struct {
	t types.Type // dynamic type; nil for the nil interface
	v value
}

// symstr is a string of fixed length whose bytes are 8-bit terms, at least
// one of them symbolic.
type symstr struct{ b []*term.T }

type closure struct {
	Fn  *ssa.Function
	Env []value
}

// bound is a bound method value or other engine-provided callable.
type nativeFn struct {
	name string
	fn   func(fr *frame, args []value) value
}

type bad struct{}

// unsafePtr is the value of an unsafe.Pointer obtained from a typed pointer.
type unsafePtr struct {
	p *value
	t types.Type // pointee type of the original pointer
}

// viewPtr is a typed integer view onto a byte array cell (little endian),
// as produced by (*int64)(unsafe.Pointer(&[8]byte)).
type viewPtr struct {
	p *value // cell holding an array of 8-bit terms
	t types.Type
}

type mapEntry struct {
	k, v value
}

// amap is an insertion-ordered association list; iteration order is
// insertion order (Go's random order is not explored).
type amap struct {
	kt      types.Type
	entries []*mapEntry
}

type iter interface{ next(i *interp) tuple }

// engineErr is raised (as a Go panic) for anything the engine cannot model;
// it makes the path inconclusive, never a violation.
type engineErr struct{ msg string }

func (e engineErr) Error() string { return "engine: " + e.msg }

func unsupported(format string, args ...any) {
	panic(engineErr{fmt.Sprintf(format, args...)})
}

// targetPanic is a panic of the program under test.
type targetPanic struct {
	v     value
	where string
}

// stopPath unwinds the interpreter when a path ends early (failed assume,
// budget, infeasible).
type stopPath struct{ reason string }

func deref(t types.Type) types.Type {
	if p, ok := t.Underlying().(*types.Pointer); ok {
		return p.Elem()
	}
	panic(engineErr{"deref of non-pointer type " + t.String()})
}

// intInfo returns width and signedness of an integer (or bool: 0) type.
func intInfo(t types.Type) (w int, signed bool, ok bool) {
	b, isB := t.Underlying().(*types.Basic)
	if !isB {
		return 0, false, false
	}
	switch b.Kind() {
	case types.Bool, types.UntypedBool:
		return 0, false, true
	case types.Int, types.Int64, types.UntypedInt:
		return 64, true, true
	case types.Int8:
		return 8, true, true
	case types.Int16:
		return 16, true, true
	case types.Int32, types.UntypedRune:
		return 32, true, true
	case types.Uint, types.Uint64, types.Uintptr:
		return 64, false, true
	case types.Uint8:
		return 8, false, true
	case types.Uint16:
		return 16, false, true
	case types.Uint32:
		return 32, false, true
	}
	return 0, false, false
}

func isString(t types.Type) bool {
	b, ok := t.Underlying().(*types.Basic)
	return ok && b.Info()&types.IsString != 0
}

func isFloat(t types.Type) bool {
	b, ok := t.Underlying().(*types.Basic)
	return ok && b.Info()&(types.IsFloat|types.IsComplex) != 0
}

// ---- strings

func (i *interp) strBytes(v value) []*term.T {
	switch s := v.(type) {
	case string:
		r := make([]*term.T, len(s))
		for k := 0; k < len(s); k++ {
			r[k] = i.ctx.BV(8, uint64(s[k]))
		}
		return r
	case symstr:
		return s.b
	}
	panic(engineErr{fmt.Sprintf("not a string: %T", v)})
}

func mkStr(b []*term.T) value {
	for _, t := range b {
		if !t.IsConst() {
			return symstr{b: append([]*term.T(nil), b...)}
		}
	}
	bs := make([]byte, len(b))
	for k, t := range b {
		bs[k] = byte(t.K)
	}
	return string(bs)
}

func strLen(v value) int {
	switch s := v.(type) {
	case string:
		return len(s)
	case symstr:
		return len(s.b)
	}
	panic(engineErr{fmt.Sprintf("len of %T", v)})
}

// ---- zero values

func (i *interp) zero(t types.Type) value {
	switch t := t.(type) {
	case *types.Basic:
		if t.Kind() == types.UntypedNil {
			panic(engineErr{"untyped nil has no zero value"})
		}
		if t.Info()&types.IsUntyped != 0 {
			t = types.Default(t).(*types.Basic)
		}
		if w, _, ok := intInfo(t); ok {
			if w == 0 {
				return i.ctx.False()
			}
			return i.ctx.BV(w, 0)
		}
		switch t.Kind() {
		case types.Float32:
			return float32(0)
		case types.Float64:
			return float64(0)
		case types.Complex64:
			return complex64(0)
		case types.Complex128:
			return complex128(0)
		case types.String:
			return ""
		case types.UnsafePointer:
			return unsafePtr{}
		}
		panic(engineErr{"zero for unexpected basic type " + t.String()})
	case *types.Pointer:
		return (*value)(nil)
	case *types.Array:
		a := make(array, t.Len())
		for k := range a {
			a[k] = i.zero(t.Elem())
		}
		return a
	case *types.Named:
		return i.zero(t.Underlying())
	case *types.Alias:
		return i.zero(types.Unalias(t))
	case *types.Interface:
		return iface{}
	case *types.Slice:
		return []value(nil)
	case *types.Struct:
		s := make(structure, t.NumFields())
		for k := range s {
			s[k] = i.zero(t.Field(k).Type())
		}
		return s
	case *types.Tuple:
		if t.Len() == 1 {
			return i.zero(t.At(0).Type())
		}
		s := make(tuple, t.Len())
		for k := range s {
			s[k] = i.zero(t.At(k).Type())
		}
		return s
	case *types.Chan:
		return (*chanv)(nil)
	case *types.Map:
		return (*amap)(nil)
	case *types.Signature:
		return (*ssa.Function)(nil)
	case *types.TypeParam:
		panic(engineErr{"zero of type parameter (generic body not instantiated)"})
	}
	panic(engineErr{fmt.Sprint("zero: unexpected ", t)})
}

type chanv struct {
	buf []value
	cap int
}

// load returns a copy of the value of type T in *addr.
func load(T types.Type, addr *value) value {
	switch T := T.Underlying().(type) {
	case *types.Struct:
		v := (*addr).(structure)
		a := make(structure, len(v))
		for k := range a {
			a[k] = load(T.Field(k).Type(), &v[k])
		}
		return a
	case *types.Array:
		v := (*addr).(array)
		a := make(array, len(v))
		for k := range a {
			a[k] = load(T.Elem(), &v[k])
		}
		return a
	default:
		return *addr
	}
}

// store stores value v of type T into *addr (in place for aggregates so that
// interior pointers stay valid).
func store(T types.Type, addr *value, v value) {
	switch T := T.Underlying().(type) {
	case *types.Struct:
		lhs := (*addr).(structure)
		rhs := v.(structure)
		for k := range lhs {
			store(T.Field(k).Type(), &lhs[k], rhs[k])
		}
	case *types.Array:
		lhs := (*addr).(array)
		rhs := v.(array)
		for k := range lhs {
			store(T.Elem(), &lhs[k], rhs[k])
		}
	default:
		*addr = v
	}
}

// copyVal deep-copies aggregates (value semantics).
func copyVal(v value) value {
	switch v := v.(type) {
	case structure:
		a := make(structure, len(v))
		for k := range v {
			a[k] = copyVal(v[k])
		}
		return a
	case array:
		a := make(array, len(v))
		for k := range v {
			a[k] = copyVal(v[k])
		}
		return a
	}
	return v
}

func sameType(x, y types.Type) bool {
	if x == nil {
		return y == nil
	}
	return y != nil && types.Identical(x, y)
}

// equalsT is Go's == for type t as a Bool term.
func (i *interp) equalsT(t types.Type, x, y value) *term.T {
	c := i.ctx
	switch x := x.(type) {
	case *term.T:
		return c.EqT(x, y.(*term.T))
	case float32:
		return c.Bool(x == y.(float32))
	case float64:
		return c.Bool(x == y.(float64))
	case complex64:
		return c.Bool(x == y.(complex64))
	case complex128:
		return c.Bool(x == y.(complex128))
	case string, symstr:
		if s, ok := x.(string); ok {
			if s2, ok2 := y.(string); ok2 {
				return c.Bool(s == s2)
			}
		}
		if strLen(x) != strLen(y) {
			return c.False()
		}
		a, b := i.strBytes(x), i.strBytes(y)
		r := c.True()
		for k := range a {
			r = c.AndB(r, c.EqT(a[k], b[k]))
		}
		return r
	case *value:
		switch y := y.(type) {
		case *value:
			return c.Bool(x == y)
		case viewPtr:
			return c.Bool(x == y.p)
		}
	case viewPtr:
		if y, ok := y.(viewPtr); ok {
			return c.Bool(x.p == y.p)
		}
		return c.False()
	case unsafePtr:
		return c.Bool(x.p == y.(unsafePtr).p)
	case *chanv:
		return c.Bool(x == y.(*chanv))
	case structure:
		ys := y.(structure)
		st := t.Underlying().(*types.Struct)
		r := c.True()
		for k := 0; k < st.NumFields(); k++ {
			if st.Field(k).Name() == "_" {
				continue
			}
			r = c.AndB(r, i.equalsT(st.Field(k).Type(), x[k], ys[k]))
		}
		return r
	case array:
		ya := y.(array)
		et := t.Underlying().(*types.Array).Elem()
		if wa, wb := wholeOf([]value(x)), wholeOf([]value(ya)); wa != nil && wb != nil && wa.W == wb.W {
			return c.EqT(wa, wb) // both are the bytes of one wide term each (digests)
		}
		r := c.True()
		for k := range x {
			r = c.AndB(r, i.equalsT(et, x[k], ya[k]))
		}
		return r
	case iface:
		yi := y.(iface)
		if !sameType(x.t, yi.t) {
			return c.False()
		}
		if x.t == nil {
			return c.True()
		}
		if !types.Comparable(x.t) {
			panic(targetPanic{v: i.runtimeErr("comparing uncomparable type " + x.t.String())})
		}
		return i.equalsT(x.t, x.v, yi.v)
	}
	panic(engineErr{fmt.Sprintf("comparing %T (%s)", x, t)})
}

// isNilValue reports whether v is the nil of a pointer/slice/map/func/chan/interface.
func isNilValue(v value) bool {
	switch v := v.(type) {
	case *value:
		return v == nil
	case []value:
		return v == nil
	case *amap:
		return v == nil
	case *ssa.Function:
		return v == nil
	case *closure:
		return v == nil
	case *chanv:
		return v == nil
	case iface:
		return v.t == nil
	case unsafePtr:
		return v.p == nil
	case viewPtr:
		return v.p == nil
	case *nativeFn:
		return v == nil
	case *ssa.Builtin:
		return v == nil
	}
	return false
}

// ---- printing (debug, evidence samples)

func toString(v value) string {
	var sb strings.Builder
	writeValue(&sb, v, 0)
	return sb.String()
}

func writeValue(sb *strings.Builder, v value, depth int) {
	if depth > 6 {
		sb.WriteString("…")
		return
	}
	switch v := v.(type) {
	case nil:
		sb.WriteString("<nil>")
	case *term.T:
		sb.WriteString(term.String(v))
	case float32, float64, complex64, complex128:
		fmt.Fprintf(sb, "%v", v)
	case string:
		fmt.Fprintf(sb, "%q", v)
	case symstr:
		sb.WriteString("symstr[")
		for k, b := range v.b {
			if k > 0 {
				sb.WriteString(" ")
			}
			sb.WriteString(term.String(b))
		}
		sb.WriteString("]")
	case *value:
		if v == nil {
			sb.WriteString("nil")
		} else {
			sb.WriteString("&")
			writeValue(sb, *v, depth+1)
		}
	case iface:
		if v.t == nil {
			sb.WriteString("nil")
		} else {
			fmt.Fprintf(sb, "(%s)", v.t)
			writeValue(sb, v.v, depth+1)
		}
	case structure:
		sb.WriteString("{")
		for k, e := range v {
			if k > 0 {
				sb.WriteString(" ")
			}
			writeValue(sb, e, depth+1)
		}
		sb.WriteString("}")
	case array:
		sb.WriteString("[")
		for k, e := range v {
			if k > 0 {
				sb.WriteString(" ")
			}
			writeValue(sb, e, depth+1)
		}
		sb.WriteString("]")
	case []value:
		sb.WriteString("[]{")
		for k, e := range v {
			if k > 0 {
				sb.WriteString(" ")
			}
			writeValue(sb, e, depth+1)
		}
		sb.WriteString("}")
	case tuple:
		sb.WriteString("(")
		for k, e := range v {
			if k > 0 {
				sb.WriteString(", ")
			}
			writeValue(sb, e, depth+1)
		}
		sb.WriteString(")")
	case *amap:
		if v == nil {
			sb.WriteString("map(nil)")
			return
		}
		sb.WriteString("map[")
		for k, e := range v.entries {
			if k > 0 {
				sb.WriteString(" ")
			}
			writeValue(sb, e.k, depth+1)
			sb.WriteString(":")
			writeValue(sb, e.v, depth+1)
		}
		sb.WriteString("]")
	case *ssa.Function:
		if v == nil {
			sb.WriteString("func(nil)")
		} else {
			sb.WriteString(v.String())
		}
	case *closure:
		sb.WriteString("closure " + v.Fn.String())
	default:
		fmt.Fprintf(sb, "<%T>", v)
	}
}
