package sx

import (
	"go/token"
	"go/types"

	"golang.org/x/tools/go/ssa"
)

// sync.Map as a single-threaded association list keyed by interface values
// (insertion order; the concurrent hash trie of the real implementation is
// not executed).

func (i *interp) syncMapOf(p value) *amap {
	cell, ok := p.(*value)
	if !ok || cell == nil {
		unsupported("sync.Map receiver %T", p)
	}
	if i.syncMaps == nil {
		i.syncMaps = map[*value]*amap{}
	}
	m := i.syncMaps[cell]
	if m == nil {
		m = &amap{kt: types.NewInterfaceType(nil, nil)}
		i.syncMaps[cell] = m
	}
	return m
}

func init() {
	anyT := types.NewInterfaceType(nil, nil)
	nilAny := iface{}
	intrinsics["(*sync.Map).Load"] = func(i *interp, caller *frame, fn *ssa.Function, args []value) value {
		if e := i.mapFind(i.syncMapOf(args[0]), args[1]); e != nil {
			return tuple{copyVal(e.v), i.ctx.True()}
		}
		return tuple{nilAny, i.ctx.False()}
	}
	intrinsics["(*sync.Map).Store"] = func(i *interp, caller *frame, fn *ssa.Function, args []value) value {
		i.mapUpdate(i.syncMapOf(args[0]), args[1], args[2])
		return nil
	}
	intrinsics["(*sync.Map).LoadOrStore"] = func(i *interp, caller *frame, fn *ssa.Function, args []value) value {
		m := i.syncMapOf(args[0])
		if e := i.mapFind(m, args[1]); e != nil {
			return tuple{copyVal(e.v), i.ctx.True()}
		}
		m.entries = append(m.entries, &mapEntry{k: copyVal(args[1]), v: copyVal(args[2])})
		return tuple{copyVal(args[2]), i.ctx.False()}
	}
	intrinsics["(*sync.Map).LoadAndDelete"] = func(i *interp, caller *frame, fn *ssa.Function, args []value) value {
		m := i.syncMapOf(args[0])
		if e := i.mapFind(m, args[1]); e != nil {
			v := copyVal(e.v)
			i.mapDelete(m, args[1])
			return tuple{v, i.ctx.True()}
		}
		return tuple{nilAny, i.ctx.False()}
	}
	intrinsics["(*sync.Map).Delete"] = func(i *interp, caller *frame, fn *ssa.Function, args []value) value {
		i.mapDelete(i.syncMapOf(args[0]), args[1])
		return nil
	}
	intrinsics["(*sync.Map).Range"] = func(i *interp, caller *frame, fn *ssa.Function, args []value) value {
		m := i.syncMapOf(args[0])
		snap := append([]*mapEntry(nil), m.entries...)
		for _, e := range snap {
			r := i.call(caller, token.NoPos, args[1], []value{copyVal(e.k), copyVal(e.v)}, nil)
			t, ok := r.(interface{ IsFalse() bool })
			if ok && t.IsFalse() {
				break
			}
			if !ok {
				unsupported("sync.Map.Range callback result %T", r)
			}
			if tt := r; tt != nil {
				if c, isT := tt.(interface{ IsTrue() bool }); isT && !c.IsTrue() && !t.IsFalse() {
					unsupported("sync.Map.Range with a symbolic continue flag")
				}
			}
		}
		return nil
	}
	_ = anyT
}
