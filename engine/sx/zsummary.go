package sx

import (
	"go/token"
	"strings"

	"golang.org/x/tools/go/ssa"

	"verif/engine/term"
)

// Function summaries: a pure function over scalars (check config
// "summarize") is not forked into the caller's paths. Instead all of its own
// paths are enumerated locally - the same feasibility queries, relative to the
// caller's path condition - and its results are merged into ite-terms over the
// local path conditions. The caller continues on ONE path. Loops inside are
// bounded by feasibility (each iteration is a local decision); MaxSubPaths
// bounds the enumeration.

const maxSubPaths = 4096

func (i *interp) wantSummary(name string, fn *ssa.Function, args []value) bool {
	if len(i.cfg.Summarize) == 0 || i.cfg.Concrete != nil {
		return false
	}
	hit := false
	for _, s := range i.cfg.Summarize {
		if s == name || s == fn.Name() || strings.HasSuffix(name, "."+s) {
			hit = true
			break
		}
	}
	if !hit {
		return false
	}
	sym := false
	for _, a := range args {
		t, ok := a.(*term.T)
		if !ok {
			return false
		}
		if !t.IsConst() {
			sym = true
		}
	}
	return sym
}

type subResult struct {
	cond *term.T
	res  []*term.T
}

func flattenTerms(v value) ([]*term.T, bool) {
	switch v := v.(type) {
	case nil:
		return nil, true
	case *term.T:
		return []*term.T{v}, true
	case tuple:
		var out []*term.T
		for _, e := range v {
			t, ok := e.(*term.T)
			if !ok {
				return nil, false
			}
			out = append(out, t)
		}
		return out, true
	}
	return nil, false
}

func (i *interp) summarize(caller *frame, callpos token.Pos, fn *ssa.Function, args []value) value {
	outer := i.path
	c := i.ctx
	base := c.True()
	if outer.local {
		base = outer.localCond
	}
	var subs []subResult
	var panicCond *term.T
	var firstPanic *targetPanic
	stack := [][]int{nil}
	isTuple := fn.Signature.Results().Len() > 1
	for len(stack) > 0 {
		prefix := stack[len(stack)-1]
		stack = stack[:len(stack)-1]
		if len(subs) >= maxSubPaths {
			i.path = outer
			unsupported("summary of %s exceeds %d local paths", fn.Name(), maxSubPaths)
		}
		lp := &pathState{eng: outer.eng, h: outer.h, prefix: prefix, sess: outer.sess, names: outer.names,
			local: true, localCond: base, altSink: &stack, ctx: c, interp: i, model: outer.model}
		i.path = lp
		var res value
		var tp *targetPanic
		func() {
			defer func() {
				if r := recover(); r != nil {
					if p, ok := r.(targetPanic); ok {
						tp = &p
						return
					}
					i.path = outer
					panic(r)
				}
			}()
			res = i.callSSABody(caller, callpos, fn, args)
		}()
		i.path = outer
		if tp != nil {
			if panicCond == nil {
				panicCond = lp.localCond
				firstPanic = tp
			} else {
				panicCond = c.OrB(panicCond, lp.localCond)
			}
			continue
		}
		ts, ok := flattenTerms(res)
		if !ok {
			unsupported("summarised function %s returns a non-scalar", fn.Name())
		}
		subs = append(subs, subResult{cond: lp.localCond, res: ts})
	}
	i.funcs[fn.String()+" [summarised: "+itoa(len(subs))+" local paths merged]"] = true
	if panicCond != nil {
		// the function can panic under panicCond: decided on the caller's path
		if i.decide(panicCond, "panic inside summarised function") {
			panic(*firstPanic)
		}
	}
	if len(subs) == 0 {
		panic(stopPath{"assume: summarised function has no feasible path"})
	}
	n := len(subs[0].res)
	out := make([]*term.T, n)
	for k := 0; k < n; k++ {
		acc := subs[len(subs)-1].res[k]
		for j := len(subs) - 2; j >= 0; j-- {
			acc = c.IteT(subs[j].cond, subs[j].res[k], acc)
		}
		out[k] = acc
	}
	if !isTuple {
		if n == 0 {
			return nil
		}
		return out[0]
	}
	t := make(tuple, n)
	for k := range out {
		t[k] = out[k]
	}
	return t
}

func itoa(n int) string {
	if n == 0 {
		return "0"
	}
	var b []byte
	for n > 0 {
		b = append([]byte{byte('0' + n%10)}, b...)
		n /= 10
	}
	return string(b)
}
