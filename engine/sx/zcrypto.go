package sx

import (
	"crypto/sha256"
	"strconv"

	"golang.org/x/tools/go/ssa"

	"verif/engine/term"
)

// Cryptographic hashes are uninterpreted functions, one per input length,
// members of an injective family ("inj:sha256:<n>"): the session adds, for
// every pair of applications, "equal digests imply equal inputs" and
// "digests of inputs of different length differ". This is the collision
// resistance assumption, stated in every evidence file that uses it.
// In a concrete run the real SHA-256 is computed.

func (i *interp) sha256Term(bs []*term.T) []*term.T {
	c := i.ctx
	out := make([]*term.T, 32)
	if i.cfg.Concrete != nil {
		raw := make([]byte, len(bs))
		for k, b := range bs {
			if !b.IsConst() {
				unsupported("sha256 of a symbolic byte in a concrete run")
			}
			raw[k] = byte(b.K)
		}
		d := sha256.Sum256(raw)
		for k := range out {
			out[k] = c.BV(8, uint64(d[k]))
		}
		return out
	}
	i.funcs["crypto/sha256.Sum256 [uninterpreted, injective]"] = true
	h := c.UFApp("inj:sha256:"+strconv.Itoa(len(bs)), 256, bs...)
	for k := range out {
		out[k] = c.ExtractT(h, 255-8*k, 248-8*k)
	}
	return out
}

// streaming SHA-256 (sha256.New(): Write ... Sum): the digest object is a
// pointer cell; the bytes written so far are kept in a side table.
func (i *interp) shaBuf(p value) *[]*term.T {
	cell, ok := p.(*value)
	if !ok || cell == nil {
		unsupported("sha256 digest receiver %T", p)
	}
	if i.shaState == nil {
		i.shaState = map[*value]*[]*term.T{}
	}
	b := i.shaState[cell]
	if b == nil {
		b = &[]*term.T{}
		i.shaState[cell] = b
	}
	return b
}

func init() {
	const dg = "(*crypto/internal/fips140/sha256.Digest)."
	intrinsics["crypto/internal/fips140/sha256.New"] = func(i *interp, caller *frame, fn *ssa.Function, args []value) value {
		var cell value = i.zero(deref(fn.Signature.Results().At(0).Type()))
		p := &cell
		i.shaBuf(p)
		return p
	}
	intrinsics[dg+"Reset"] = func(i *interp, caller *frame, fn *ssa.Function, args []value) value {
		*i.shaBuf(args[0]) = nil
		return nil
	}
	intrinsics[dg+"Size"] = func(i *interp, caller *frame, fn *ssa.Function, args []value) value { return i.ctx.BV(64, 32) }
	intrinsics[dg+"BlockSize"] = func(i *interp, caller *frame, fn *ssa.Function, args []value) value { return i.ctx.BV(64, 64) }
	intrinsics[dg+"Write"] = func(i *interp, caller *frame, fn *ssa.Function, args []value) value {
		b := i.shaBuf(args[0])
		in := args[1].([]value)
		for _, e := range in {
			*b = append(*b, e.(*term.T))
		}
		return tuple{i.ctx.BV(64, uint64(len(in))), iface{}}
	}
	intrinsics[dg+"Sum"] = func(i *interp, caller *frame, fn *ssa.Function, args []value) value {
		d := i.sha256Term(*i.shaBuf(args[0]))
		// append in place when the capacity allows, exactly like the real Sum
		// (callers write h.Sum(result[:0]) to fill an array)
		var out []value
		if args[1] != nil {
			out = args[1].([]value)
		}
		for _, t := range d {
			out = append(out, t)
		}
		return out
	}
	// CRC tables built in package initialisers (checksums themselves are not modelled)
	intrinsics["hash/crc32.MakeTable"] = func(i *interp, caller *frame, fn *ssa.Function, args []value) value {
		return (*value)(nil)
	}
	intrinsics["crypto/sha256.Sum256"] = func(i *interp, caller *frame, fn *ssa.Function, args []value) value {
		in := args[0].([]value)
		bs := make([]*term.T, len(in))
		for k, e := range in {
			bs[k] = e.(*term.T)
		}
		d := i.sha256Term(bs)
		r := make(array, 32)
		for k := range r {
			r[k] = d[k]
		}
		return r
	}
}
