package sx

import (
	"crypto/sha256"
	"strconv"

	"golang.org/x/tools/go/ssa"

	"verif/engine/term"
)

// Cryptographic hashes are uninterpreted functions, one per input length,
// members of an injective family ("inj:sha256:<n>"): the session adds, for
// every pair of applications, "equal digests imply equal inputs" and
// "digests of inputs of different length differ". This is the collision
// resistance assumption, stated in every evidence file that uses it.
// In a concrete run the real SHA-256 is computed.

func (i *interp) sha256Term(bs []*term.T) []*term.T {
	c := i.ctx
	out := make([]*term.T, 32)
	if i.cfg.Concrete != nil {
		raw := make([]byte, len(bs))
		for k, b := range bs {
			if !b.IsConst() {
				unsupported("sha256 of a symbolic byte in a concrete run")
			}
			raw[k] = byte(b.K)
		}
		d := sha256.Sum256(raw)
		for k := range out {
			out[k] = c.BV(8, uint64(d[k]))
		}
		return out
	}
	i.funcs["crypto/sha256.Sum256 [uninterpreted, injective]"] = true
	h := c.UFApp("inj:sha256:"+strconv.Itoa(len(bs)), 256, bs...)
	for k := range out {
		out[k] = c.ExtractT(h, 255-8*k, 248-8*k)
	}
	return out
}

func init() {
	intrinsics["crypto/sha256.Sum256"] = func(i *interp, caller *frame, fn *ssa.Function, args []value) value {
		in := args[0].([]value)
		bs := make([]*term.T, len(in))
		for k, e := range in {
			bs[k] = e.(*term.T)
		}
		d := i.sha256Term(bs)
		r := make(array, 32)
		for k := range r {
			r[k] = d[k]
		}
		return r
	}
}
