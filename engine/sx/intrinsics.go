package sx

import (
	"fmt"
	"go/token"
	"go/types"
	"math"
	"math/big"
	"strconv"
	"strings"

	"golang.org/x/tools/go/ssa"

	"verif/engine/term"
)

type intrinsicFn func(i *interp, caller *frame, fn *ssa.Function, args []value) value

func (i *interp) intrinsic(name string, fn *ssa.Function) func(caller *frame, fn *ssa.Function, args []value) value {
	var f intrinsicFn
	if fn.Pkg != nil && fn.Signature.Recv() == nil && strings.HasPrefix(fn.Name(), "verif") {
		f = verifIntrinsics[fn.Name()]
	}
	if f == nil {
		f = intrinsics[name]
	}
	if f == nil {
		// package-prefix rules
		switch {
		case strings.HasPrefix(name, "(*sync.Mutex)."), strings.HasPrefix(name, "(*sync.RWMutex)."),
			strings.HasPrefix(name, "(*sync.WaitGroup)."), strings.HasPrefix(name, "(*github.com/sasha-s/go-deadlock."),
			strings.HasPrefix(name, "(*log/slog.Logger)."), strings.HasPrefix(name, "log/slog."),
			strings.HasPrefix(name, "github.com/gnolang/gno/tm2/pkg/telemetry"),
			strings.HasPrefix(name, "(*github.com/gnolang/gno/tm2/pkg/amino/pkg.Package)."):
			f = func(i *interp, caller *frame, fn *ssa.Function, args []value) value {
				return i.zeroResults(fn)
			}
			if strings.HasPrefix(name, "(*github.com/gnolang/gno/tm2/pkg/amino/pkg.Package).") && len(fn.Params) > 0 {
				// builder-style methods return the receiver
				f = func(i *interp, caller *frame, fn *ssa.Function, args []value) value {
					if fn.Signature.Results().Len() == 1 {
						return args[0]
					}
					return i.zeroResults(fn)
				}
			}
		}
	}
	if f == nil {
		return nil
	}
	return func(caller *frame, fn *ssa.Function, args []value) value { return f(i, caller, fn, args) }
}

func constStr(v value) string {
	s, ok := v.(string)
	if !ok {
		unsupported("intrinsic needs a constant string argument, got %T", v)
	}
	return s
}

func nondetOf(w int, kind string) intrinsicFn {
	return func(i *interp, caller *frame, fn *ssa.Function, args []value) value {
		return i.nondet(constStr(args[0]), w, kind)
	}
}

var verifIntrinsics map[string]intrinsicFn
var intrinsics map[string]intrinsicFn

func fp64(x string) string { return "((_ to_fp 11 53) " + x + ")" }
func fp32(x string) string { return "((_ to_fp 8 24) " + x + ")" }

func rawBool(tmpl string) intrinsicFn {
	return func(i *interp, caller *frame, fn *ssa.Function, args []value) value {
		ts := make([]*term.T, len(args))
		allConst := true
		for k, a := range args {
			ts[k] = a.(*term.T)
			if !ts[k].IsConst() {
				allConst = false
			}
		}
		if allConst {
			if r, ok := evalFPConst(fn.Name(), ts); ok {
				return i.ctx.Bool(r)
			}
		}
		return i.ctx.RawT(tmpl, 0, ts...)
	}
}

func rawBV(tmpl string, w int) intrinsicFn {
	return func(i *interp, caller *frame, fn *ssa.Function, args []value) value {
		ts := make([]*term.T, len(args))
		for k, a := range args {
			ts[k] = a.(*term.T)
		}
		return i.ctx.RawT(tmpl, w, ts...)
	}
}

func sameF64(r uint64, f float64) bool {
	if f != f {
		return r&0x7ff0000000000000 == 0x7ff0000000000000 && r&0x000fffffffffffff != 0
	}
	return r == math.Float64bits(f)
}
func sameF32(r uint32, f float32) bool {
	if f != f {
		return r&0x7f800000 == 0x7f800000 && r&0x007fffff != 0
	}
	return r == math.Float32bits(f)
}

// evalFPConst evaluates the floating-point oracles on constants (concrete runs).
func evalFPConst(name string, a []*term.T) (bool, bool) {
	f64 := func(k int) float64 { return math.Float64frombits(a[k].K) }
	f32 := func(k int) float32 { return math.Float32frombits(uint32(a[k].K)) }
	switch name {
	case "verifF64AddIs":
		return sameF64(a[0].K, f64(1)+f64(2)), true
	case "verifF64SubIs":
		return sameF64(a[0].K, f64(1)-f64(2)), true
	case "verifF64MulIs":
		return sameF64(a[0].K, f64(1)*f64(2)), true
	case "verifF64DivIs":
		return sameF64(a[0].K, f64(1)/f64(2)), true
	case "verifF32AddIs":
		return sameF32(uint32(a[0].K), f32(1)+f32(2)), true
	case "verifF32SubIs":
		return sameF32(uint32(a[0].K), f32(1)-f32(2)), true
	case "verifF32MulIs":
		return sameF32(uint32(a[0].K), f32(1)*f32(2)), true
	case "verifF32DivIs":
		return sameF32(uint32(a[0].K), f32(1)/f32(2)), true
	case "verifF64NegIs":
		return sameF64(a[0].K, -f64(1)), true
	case "verifF32NegIs":
		return sameF32(uint32(a[0].K), -f32(1)), true
	case "verifF64To32Is":
		return sameF32(uint32(a[0].K), float32(f64(1))), true
	case "verifF32To64Is":
		return sameF64(a[0].K, float64(f32(1))), true
	case "verifF64Eq":
		return f64(0) == f64(1), true
	case "verifF64Lt":
		return f64(0) < f64(1), true
	case "verifF64Le":
		return f64(0) <= f64(1), true
	case "verifF32Eq":
		return f32(0) == f32(1), true
	case "verifF32Lt":
		return f32(0) < f32(1), true
	case "verifF32Le":
		return f32(0) <= f32(1), true
	case "verifF64IsNaN":
		return f64(0) != f64(0), true
	case "verifF32IsNaN":
		return f32(0) != f32(0), true
	case "verifI64ToF64Is":
		return sameF64(a[0].K, float64(int64(a[1].K))), true
	case "verifI64ToF32Is":
		return sameF32(uint32(a[0].K), float32(int64(a[1].K))), true
	case "verifU64ToF64Is":
		return sameF64(a[0].K, float64(a[1].K)), true
	case "verifU64ToF32Is":
		return sameF32(uint32(a[0].K), float32(a[1].K)), true
	case "verifI32ToF64Is":
		return sameF64(a[0].K, float64(int32(a[1].K))), true
	case "verifI32ToF32Is":
		return sameF32(uint32(a[0].K), float32(int32(a[1].K))), true
	case "verifF64FitsI64":
		f := f64(0)
		return f == f && f >= -9223372036854775808.0 && f < 9223372036854775808.0, true
	case "verifF64FitsI32":
		f := f64(0)
		return f == f && f > -2147483649.0 && f < 2147483648.0, true
	case "verifF64FitsU64":
		f := f64(0)
		return f == f && f > -1.0 && f < 18446744073709551616.0, true
	case "verifF32FitsI64":
		f := f32(0)
		return f == f && f >= -9223372036854775808.0 && f < 9223372036854775808.0, true
	case "verifF32FitsI32":
		f := f32(0)
		return f == f && f >= -2147483648.0 && f < 2147483648.0, true
	case "verifF32FitsU64":
		f := f32(0)
		return f == f && f > -1.0 && f < 18446744073709551616.0, true
	}
	return false, false
}

func fpToInt(name string, w int, tmpl string) intrinsicFn {
	return func(i *interp, caller *frame, fn *ssa.Function, args []value) value {
		a := args[0].(*term.T)
		if a.IsConst() {
			switch name {
			case "verifF64ToI64":
				return i.ctx.BV(64, uint64(int64(math.Float64frombits(a.K))))
			case "verifF64ToI32":
				return i.ctx.BV(32, uint64(int32(math.Float64frombits(a.K))))
			case "verifF64ToU64":
				return i.ctx.BV(64, uint64(math.Float64frombits(a.K)))
			case "verifF32ToI64":
				return i.ctx.BV(64, uint64(int64(math.Float32frombits(uint32(a.K)))))
			case "verifF32ToI32":
				return i.ctx.BV(32, uint64(int32(math.Float32frombits(uint32(a.K)))))
			case "verifF32ToU64":
				return i.ctx.BV(64, uint64(math.Float32frombits(uint32(a.K))))
			}
		}
		return i.ctx.RawT(tmpl, w, a)
	}
}

func init() {
	verifIntrinsics = map[string]intrinsicFn{
		"verifNondetBool":   nondetOf(0, "bool"),
		"verifNondetInt":    nondetOf(64, "int"),
		"verifNondetInt8":   nondetOf(8, "int8"),
		"verifNondetInt16":  nondetOf(16, "int16"),
		"verifNondetInt32":  nondetOf(32, "int32"),
		"verifNondetInt64":  nondetOf(64, "int64"),
		"verifNondetUint":   nondetOf(64, "uint"),
		"verifNondetUint8":  nondetOf(8, "uint8"),
		"verifNondetUint16": nondetOf(16, "uint16"),
		"verifNondetUint32": nondetOf(32, "uint32"),
		"verifNondetUint64": nondetOf(64, "uint64"),
		"verifBytes": func(i *interp, caller *frame, fn *ssa.Function, args []value) value {
			name := constStr(args[0])
			n, ok := constInt(args[1])
			if !ok {
				unsupported("verifBytes with symbolic length")
			}
			r := make([]value, n)
			for k := range r {
				r[k] = i.nondet(name+"["+strconv.Itoa(k)+"]", 8, "uint8")
			}
			return r
		},
		"verifString": func(i *interp, caller *frame, fn *ssa.Function, args []value) value {
			name := constStr(args[0])
			n, ok := constInt(args[1])
			if !ok {
				unsupported("verifString with symbolic length")
			}
			r := make([]*term.T, n)
			for k := range r {
				r[k] = i.nondet(name+"["+strconv.Itoa(k)+"]", 8, "uint8")
			}
			return mkStr(r)
		},
		"verifChoose": func(i *interp, caller *frame, fn *ssa.Function, args []value) value {
			name := i.path.uniqueName(constStr(args[0]))
			n, ok := constInt(args[1])
			if !ok || n <= 0 {
				unsupported("verifChoose needs a constant positive n")
			}
			var k int
			if i.cfg.Concrete != nil {
				k, _ = strconv.Atoi(i.cfg.Concrete[name])
				if k < 0 || k >= int(n) {
					panic(stopPath{"assume: choose out of range"})
				}
			} else {
				k = i.choose(int(n))
			}
			i.path.nondets = append(i.path.nondets, &nondetRec{Name: name, Kind: "choose", Val: big.NewInt(int64(k))})
			return i.ctx.BV(64, uint64(k))
		},
		"verifThorough": func(i *interp, caller *frame, fn *ssa.Function, args []value) value {
			return i.ctx.Bool(i.cfg.Thorough)
		},
		"verifAssume": func(i *interp, caller *frame, fn *ssa.Function, args []value) value {
			i.verifAssume(args[0].(*term.T))
			return nil
		},
		"verifAssert": func(i *interp, caller *frame, fn *ssa.Function, args []value) value {
			i.verifAssert(args[0].(*term.T), constStr(args[1]))
			return nil
		},
		"verifReach": func(i *interp, caller *frame, fn *ssa.Function, args []value) value {
			i.path.reach = append(i.path.reach, constStr(args[0]))
			return nil
		},
		// floating-point oracles
		"verifF64AddIs":   rawBool("(= " + fp64("%0") + " (fp.add RNE " + fp64("%1") + " " + fp64("%2") + "))"),
		"verifF64SubIs":   rawBool("(= " + fp64("%0") + " (fp.sub RNE " + fp64("%1") + " " + fp64("%2") + "))"),
		"verifF64MulIs":   rawBool("(= " + fp64("%0") + " (fp.mul RNE " + fp64("%1") + " " + fp64("%2") + "))"),
		"verifF64DivIs":   rawBool("(= " + fp64("%0") + " (fp.div RNE " + fp64("%1") + " " + fp64("%2") + "))"),
		"verifF32AddIs":   rawBool("(= " + fp32("%0") + " (fp.add RNE " + fp32("%1") + " " + fp32("%2") + "))"),
		"verifF32SubIs":   rawBool("(= " + fp32("%0") + " (fp.sub RNE " + fp32("%1") + " " + fp32("%2") + "))"),
		"verifF32MulIs":   rawBool("(= " + fp32("%0") + " (fp.mul RNE " + fp32("%1") + " " + fp32("%2") + "))"),
		"verifF32DivIs":   rawBool("(= " + fp32("%0") + " (fp.div RNE " + fp32("%1") + " " + fp32("%2") + "))"),
		"verifF64NegIs":   rawBool("(= " + fp64("%0") + " (fp.neg " + fp64("%1") + "))"),
		"verifF32NegIs":   rawBool("(= " + fp32("%0") + " (fp.neg " + fp32("%1") + "))"),
		"verifF64To32Is":  rawBool("(= " + fp32("%0") + " ((_ to_fp 8 24) RNE " + fp64("%1") + "))"),
		"verifF32To64Is":  rawBool("(= " + fp64("%0") + " ((_ to_fp 11 53) RNE " + fp32("%1") + "))"),
		"verifF64Eq":      rawBool("(fp.eq " + fp64("%0") + " " + fp64("%1") + ")"),
		"verifF64Lt":      rawBool("(fp.lt " + fp64("%0") + " " + fp64("%1") + ")"),
		"verifF64Le":      rawBool("(fp.leq " + fp64("%0") + " " + fp64("%1") + ")"),
		"verifF32Eq":      rawBool("(fp.eq " + fp32("%0") + " " + fp32("%1") + ")"),
		"verifF32Lt":      rawBool("(fp.lt " + fp32("%0") + " " + fp32("%1") + ")"),
		"verifF32Le":      rawBool("(fp.leq " + fp32("%0") + " " + fp32("%1") + ")"),
		"verifF64IsNaN":   rawBool("(fp.isNaN " + fp64("%0") + ")"),
		"verifF32IsNaN":   rawBool("(fp.isNaN " + fp32("%0") + ")"),
		"verifI64ToF64Is": rawBool("(= " + fp64("%0") + " ((_ to_fp 11 53) RNE %1))"),
		"verifI64ToF32Is": rawBool("(= " + fp32("%0") + " ((_ to_fp 8 24) RNE %1))"),
		"verifU64ToF64Is": rawBool("(= " + fp64("%0") + " ((_ to_fp_unsigned 11 53) RNE %1))"),
		"verifU64ToF32Is": rawBool("(= " + fp32("%0") + " ((_ to_fp_unsigned 8 24) RNE %1))"),
		"verifI32ToF64Is": rawBool("(= " + fp64("%0") + " ((_ to_fp 11 53) RNE %1))"),
		"verifI32ToF32Is": rawBool("(= " + fp32("%0") + " ((_ to_fp 8 24) RNE %1))"),
		"verifF64FitsI64": rawBool("(and (not (fp.isNaN " + fp64("%0") + ")) (fp.geq " + fp64("%0") + " ((_ to_fp 11 53) RNE (- 9223372036854775808.0))) (fp.lt " + fp64("%0") + " ((_ to_fp 11 53) RNE 9223372036854775808.0)))"),
		"verifF64FitsI32": rawBool("(and (not (fp.isNaN " + fp64("%0") + ")) (fp.gt " + fp64("%0") + " ((_ to_fp 11 53) RNE (- 2147483649.0))) (fp.lt " + fp64("%0") + " ((_ to_fp 11 53) RNE 2147483648.0)))"),
		"verifF64FitsU64": rawBool("(and (not (fp.isNaN " + fp64("%0") + ")) (fp.gt " + fp64("%0") + " ((_ to_fp 11 53) RNE (- 1.0))) (fp.lt " + fp64("%0") + " ((_ to_fp 11 53) RNE 18446744073709551616.0)))"),
		"verifF32FitsI64": rawBool("(and (not (fp.isNaN " + fp32("%0") + ")) (fp.geq " + fp32("%0") + " ((_ to_fp 8 24) RNE (- 9223372036854775808.0))) (fp.lt " + fp32("%0") + " ((_ to_fp 8 24) RNE 9223372036854775808.0)))"),
		"verifF32FitsI32": rawBool("(and (not (fp.isNaN " + fp32("%0") + ")) (fp.geq " + fp32("%0") + " ((_ to_fp 8 24) RNE (- 2147483648.0))) (fp.lt " + fp32("%0") + " ((_ to_fp 8 24) RNE 2147483648.0)))"),
		"verifF32FitsU64": rawBool("(and (not (fp.isNaN " + fp32("%0") + ")) (fp.gt " + fp32("%0") + " ((_ to_fp 8 24) RNE (- 1.0))) (fp.lt " + fp32("%0") + " ((_ to_fp 8 24) RNE 18446744073709551616.0)))"),
		"verifF64ToI64":   fpToInt("verifF64ToI64", 64, "((_ fp.to_sbv 64) RTZ "+fp64("%0")+")"),
		"verifF64ToI32":   fpToInt("verifF64ToI32", 32, "((_ fp.to_sbv 32) RTZ "+fp64("%0")+")"),
		"verifF64ToU64":   fpToInt("verifF64ToU64", 64, "((_ fp.to_ubv 64) RTZ "+fp64("%0")+")"),
		"verifF32ToI64":   fpToInt("verifF32ToI64", 64, "((_ fp.to_sbv 64) RTZ "+fp32("%0")+")"),
		"verifF32ToI32":   fpToInt("verifF32ToI32", 32, "((_ fp.to_sbv 32) RTZ "+fp32("%0")+")"),
		"verifF32ToU64":   fpToInt("verifF32ToU64", 64, "((_ fp.to_ubv 64) RTZ "+fp32("%0")+")"),
	}

	noop := func(i *interp, caller *frame, fn *ssa.Function, args []value) value { return i.zeroResults(fn) }
	intrinsics = map[string]intrinsicFn{
		// ---- sync / atomic: single-threaded
		"(*sync.Once).Do": func(i *interp, caller *frame, fn *ssa.Function, args []value) value {
			p := args[0].(*value)
			s := (*p).(structure)
			// field 0 is `done atomic.Uint32` (struct{_ noCopy; v uint32}) in current Go; mark via a side table
			if i.onceDone == nil {
				i.onceDone = map[*value]bool{}
			}
			_ = s
			if i.onceDone[p] {
				return nil
			}
			i.onceDone[p] = true
			i.call(caller, token.NoPos, args[1], nil, nil)
			return nil
		},
		"runtime.Callers": func(i *interp, caller *frame, fn *ssa.Function, args []value) value { return i.ctx.BV(64, 0) },
		"runtime.Caller": func(i *interp, caller *frame, fn *ssa.Function, args []value) value {
			return tuple{i.ctx.BV(64, 0), "", i.ctx.BV(64, 0), i.ctx.False()}
		},
		"github.com/gnolang/gno/tm2/pkg/errors.captureStacktrace": func(i *interp, caller *frame, fn *ssa.Function, args []value) value {
			return []value(nil)
		},
		"runtime.SetFinalizer": noop, "runtime.KeepAlive": noop, "runtime.GC": noop, "runtime.Gosched": noop,
		"runtime/debug.Stack":      func(i *interp, caller *frame, fn *ssa.Function, args []value) value { return []value{} },
		"runtime/debug.PrintStack": noop,
		"time.Sleep":               noop,
		"os.Getenv":                func(i *interp, caller *frame, fn *ssa.Function, args []value) value { return "" },

		// ---- errors / fmt: opaque values
		"fmt.Sprintf": func(i *interp, caller *frame, fn *ssa.Function, args []value) value {
			return i.fmtString(args[0], args[1])
		},
		"fmt.Sprint":   func(i *interp, caller *frame, fn *ssa.Function, args []value) value { return "<fmt.Sprint>" },
		"fmt.Sprintln": func(i *interp, caller *frame, fn *ssa.Function, args []value) value { return "<fmt.Sprintln>" },
		"fmt.Errorf": func(i *interp, caller *frame, fn *ssa.Function, args []value) value {
			s := i.fmtString(args[0], args[1])
			return i.newError(caller, s)
		},
		"fmt.Println": noop, "fmt.Printf": noop, "fmt.Print": noop, "fmt.Fprintf": noop, "fmt.Fprintln": noop, "fmt.Fprint": noop,
		"log.Printf": noop, "log.Println": noop, "log.Print": noop,
		"strconv.Itoa": func(i *interp, caller *frame, fn *ssa.Function, args []value) value {
			n, ok := i.asIntSigned(args[0], true)
			if !ok {
				unsupported("strconv.Itoa of a symbolic integer")
			}
			return strconv.Itoa(int(n))
		},
		"strconv.FormatInt": func(i *interp, caller *frame, fn *ssa.Function, args []value) value {
			n, ok := i.asIntSigned(args[0], true)
			b, ok2 := i.asIntSigned(args[1], true)
			if !ok || !ok2 {
				unsupported("strconv.FormatInt of a symbolic integer")
			}
			return strconv.FormatInt(n, int(b))
		},
		"regexp.MustCompile": func(i *interp, caller *frame, fn *ssa.Function, args []value) value { return (*value)(nil) },

		// ---- bytes / strings primitives that are assembly or branch per byte
		"bytes.Equal": func(i *interp, caller *frame, fn *ssa.Function, args []value) value {
			return i.bytesEq(args[0].([]value), args[1].([]value))
		},
		"bytes.Compare": func(i *interp, caller *frame, fn *ssa.Function, args []value) value {
			return i.cmp3(i.bytesToStr(args[0]), i.bytesToStr(args[1]))
		},
		"strings.Compare": func(i *interp, caller *frame, fn *ssa.Function, args []value) value {
			return i.cmp3(args[0], args[1])
		},
		"internal/bytealg.MakeNoZero": func(i *interp, caller *frame, fn *ssa.Function, args []value) value {
			n, ok := constInt(args[0])
			if !ok || n < 0 || n > i.cfg.MaxAlloc {
				unsupported("MakeNoZero with symbolic or large length")
			}
			r := make([]value, n)
			for k := range r {
				r[k] = i.ctx.BV(8, 0)
			}
			return r
		},
		"internal/bytealg.Compare": func(i *interp, caller *frame, fn *ssa.Function, args []value) value {
			return i.cmp3(i.bytesToStr(args[0]), i.bytesToStr(args[1]))
		},
		"internal/bytealg.Equal": func(i *interp, caller *frame, fn *ssa.Function, args []value) value {
			return i.bytesEq(args[0].([]value), args[1].([]value))
		},
		"bytes.HasPrefix": func(i *interp, caller *frame, fn *ssa.Function, args []value) value {
			a, b := args[0].([]value), args[1].([]value)
			if len(a) < len(b) {
				return i.ctx.False()
			}
			return i.bytesEq(a[:len(b)], b)
		},
		"strings.HasPrefix": func(i *interp, caller *frame, fn *ssa.Function, args []value) value {
			a, b := i.strBytes(args[0]), i.strBytes(args[1])
			if len(a) < len(b) {
				return i.ctx.False()
			}
			return i.equalsT(types.Typ[types.String], mkStr(a[:len(b)]), mkStr(b))
		},
		"strings.HasSuffix": func(i *interp, caller *frame, fn *ssa.Function, args []value) value {
			a, b := i.strBytes(args[0]), i.strBytes(args[1])
			if len(a) < len(b) {
				return i.ctx.False()
			}
			return i.equalsT(types.Typ[types.String], mkStr(a[len(a)-len(b):]), mkStr(b))
		},
		// context.WithValue without the reflectlite comparability check:
		// &valueCtx{parent, key, val}
		"context.WithValue": func(i *interp, caller *frame, fn *ssa.Function, args []value) value {
			obj := fn.Pkg.Pkg.Scope().Lookup("valueCtx")
			if obj == nil {
				unsupported("context.valueCtx not found")
			}
			var cell value = structure{args[0], args[1], args[2]}
			return iface{t: types.NewPointer(obj.Type()), v: &cell}
		},
		"internal/bytealg.IndexByteString": func(i *interp, caller *frame, fn *ssa.Function, args []value) value {
			return i.indexByte(i.strBytes(args[0]), args[1].(*term.T))
		},
		"internal/bytealg.IndexByte": func(i *interp, caller *frame, fn *ssa.Function, args []value) value {
			return i.indexByte(i.strBytes(i.bytesToStr(args[0])), args[1].(*term.T))
		},
		"internal/bytealg.CountString": func(i *interp, caller *frame, fn *ssa.Function, args []value) value {
			bs := i.strBytes(args[0])
			c := i.ctx
			r := c.BV(64, 0)
			for _, b := range bs {
				r = c.Bin(term.Add, r, c.IteT(c.EqT(b, args[1].(*term.T)), c.BV(64, 1), c.BV(64, 0)))
			}
			return r
		},
		"internal/stringslite.HasPrefix": func(i *interp, caller *frame, fn *ssa.Function, args []value) value {
			a, b := i.strBytes(args[0]), i.strBytes(args[1])
			if len(a) < len(b) {
				return i.ctx.False()
			}
			return i.equalsT(types.Typ[types.String], mkStr(a[:len(b)]), mkStr(b))
		},
		"(*strings.Builder).copyCheck": noop,
		"(*strings.Builder).String": func(i *interp, caller *frame, fn *ssa.Function, args []value) value {
			p := args[0].(*value)
			s := (*p).(structure)
			buf := s[len(s)-1].([]value)
			bs := make([]*term.T, len(buf))
			for k, e := range buf {
				bs[k] = e.(*term.T)
			}
			return mkStr(bs)
		},
		"unsafe.String": func(i *interp, caller *frame, fn *ssa.Function, args []value) value {
			unsupported("unsafe.String")
			return nil
		},

		// ---- math/bits
		"math/bits.Len64": func(i *interp, caller *frame, fn *ssa.Function, args []value) value {
			return i.ctx.Len64(args[0].(*term.T))
		},
		"math/bits.Len32": func(i *interp, caller *frame, fn *ssa.Function, args []value) value {
			return i.ctx.Len64(args[0].(*term.T))
		},
		"math/bits.Len": func(i *interp, caller *frame, fn *ssa.Function, args []value) value {
			return i.ctx.Len64(args[0].(*term.T))
		},
		"math/bits.Len8": func(i *interp, caller *frame, fn *ssa.Function, args []value) value {
			return i.ctx.Len64(args[0].(*term.T))
		},
		"math/bits.LeadingZeros64": func(i *interp, caller *frame, fn *ssa.Function, args []value) value {
			return i.ctx.Bin(term.Sub, i.ctx.BV(64, 64), i.ctx.Len64(args[0].(*term.T)))
		},
		"math/bits.LeadingZeros32": func(i *interp, caller *frame, fn *ssa.Function, args []value) value {
			return i.ctx.Bin(term.Sub, i.ctx.BV(64, 32), i.ctx.Len64(args[0].(*term.T)))
		},
		"math/bits.LeadingZeros8": func(i *interp, caller *frame, fn *ssa.Function, args []value) value {
			return i.ctx.Bin(term.Sub, i.ctx.BV(64, 8), i.ctx.Len64(args[0].(*term.T)))
		},
		"math/bits.TrailingZeros64": func(i *interp, caller *frame, fn *ssa.Function, args []value) value {
			c := i.ctx
			x := args[0].(*term.T)
			r := c.BV(64, 64)
			for k := 63; k >= 0; k-- {
				r = c.IteT(c.EqT(c.ExtractT(x, k, k), c.BV(1, 1)), c.BV(64, uint64(k)), r)
			}
			return r
		},
		"math/bits.OnesCount64": func(i *interp, caller *frame, fn *ssa.Function, args []value) value {
			return i.popcount(args[0].(*term.T))
		},
		"math/bits.OnesCount8": func(i *interp, caller *frame, fn *ssa.Function, args []value) value {
			return i.popcount(args[0].(*term.T))
		},
		"math/bits.OnesCount": func(i *interp, caller *frame, fn *ssa.Function, args []value) value {
			return i.popcount(args[0].(*term.T))
		},
		"math/bits.Mul64": func(i *interp, caller *frame, fn *ssa.Function, args []value) value {
			c := i.ctx
			p := c.Bin(term.Mul, c.ZExtT(args[0].(*term.T), 128), c.ZExtT(args[1].(*term.T), 128))
			return tuple{c.ExtractT(p, 127, 64), c.ExtractT(p, 63, 0)}
		},
		"math.Float64bits": func(i *interp, caller *frame, fn *ssa.Function, args []value) value {
			return i.ctx.BV(64, math.Float64bits(args[0].(float64)))
		},
		"math.Float64frombits": func(i *interp, caller *frame, fn *ssa.Function, args []value) value {
			t := args[0].(*term.T)
			if !t.IsConst() {
				unsupported("math.Float64frombits of symbolic bits (native floats are concrete only)")
			}
			return math.Float64frombits(t.K)
		},
		"math.Float32bits": func(i *interp, caller *frame, fn *ssa.Function, args []value) value {
			return i.ctx.BV(32, uint64(math.Float32bits(args[0].(float32))))
		},
		"math.Float32frombits": func(i *interp, caller *frame, fn *ssa.Function, args []value) value {
			t := args[0].(*term.T)
			if !t.IsConst() {
				unsupported("math.Float32frombits of symbolic bits")
			}
			return math.Float32frombits(uint32(t.K))
		},

		// ---- amino registration in package initialisers
		"github.com/gnolang/gno/tm2/pkg/amino.RegisterPackage": noop,
		"github.com/gnolang/gno/tm2/pkg/amino.NewPackage": func(i *interp, caller *frame, fn *ssa.Function, args []value) value {
			var cell value = i.zero(deref(fn.Signature.Results().At(0).Type()))
			return &cell
		},
		"github.com/gnolang/gno/tm2/pkg/amino.RegisterGenproto2Type": noop,
		"github.com/gnolang/gno/tm2/pkg/amino.GetCallersDirname":     func(i *interp, caller *frame, fn *ssa.Function, args []value) value { return "" },
		"github.com/gnolang/gno/tm2/pkg/amino.NewCodec": func(i *interp, caller *frame, fn *ssa.Function, args []value) value {
			return (*value)(nil)
		},
		"github.com/gnolang/gno/tm2/pkg/amino.GetTypeURL": func(i *interp, caller *frame, fn *ssa.Function, args []value) value {
			if x, ok := args[0].(iface); ok && x.t != nil {
				return "/verif." + x.t.String()
			}
			return "/verif.nil"
		},
		// codec set-up calls made from package initialisers (the codec itself is never executed)
		"(*github.com/gnolang/gno/tm2/pkg/amino.Codec).Seal":            func(i *interp, caller *frame, fn *ssa.Function, args []value) value { return args[0] },
		"(*github.com/gnolang/gno/tm2/pkg/amino.Codec).RegisterPackage": noop,
		"(*github.com/gnolang/gno/tm2/pkg/amino.Codec).RegisterTypeFrom": noop,
		"(*github.com/gnolang/gno/tm2/pkg/amino.Codec).Autoseal":        func(i *interp, caller *frame, fn *ssa.Function, args []value) value { return args[0] },
	}
	addAtomics()
	addBig()
	addSort()
}

func (i *interp) popcount(x *term.T) *term.T {
	c := i.ctx
	r := c.BV(64, 0)
	for k := 0; k < x.W; k++ {
		r = c.Bin(term.Add, r, c.ZExtT(c.ExtractT(x, k, k), 64))
	}
	return r
}

func (i *interp) bytesToStr(v value) value {
	s := v.([]value)
	bs := make([]*term.T, len(s))
	for k, e := range s {
		bs[k] = e.(*term.T)
	}
	return mkStr(bs)
}

func (i *interp) bytesEq(a, b []value) *term.T {
	c := i.ctx
	if len(a) != len(b) {
		return c.False()
	}
	// both sides byte slices of one wider term each (digests): compare the wide terms
	if wa, wb := wholeOf(a), wholeOf(b); wa != nil && wb != nil && wa.W == wb.W {
		return c.EqT(wa, wb)
	}
	r := c.True()
	for k := range a {
		r = c.AndB(r, c.EqT(a[k].(*term.T), b[k].(*term.T)))
	}
	return r
}

// wholeOf returns t when bs are exactly the bytes of t, most significant first.
func wholeOf(bs []value) *term.T {
	if len(bs) < 2 {
		return nil
	}
	var base *term.T
	for k, e := range bs {
		x, ok := e.(*term.T)
		if !ok || x.Op != term.Extract {
			return nil
		}
		if k == 0 {
			base = x.A[0]
			if base.W != 8*len(bs) {
				return nil
			}
		}
		if x.A[0] != base || x.P1 != base.W-1-8*k || x.P2 != base.W-8-8*k {
			return nil
		}
	}
	return base
}

// cmp3 is the three-way comparison (-1, 0, +1) as a 64-bit term.
func (i *interp) cmp3(x, y value) *term.T {
	c := i.ctx
	lt, eq := i.strCmpTerms(x, y)
	return c.IteT(lt, c.BV(64, ^uint64(0)), c.IteT(eq, c.BV(64, 0), c.BV(64, 1)))
}

func (i *interp) indexByte(bs []*term.T, b *term.T) *term.T {
	c := i.ctx
	// a constant haystack searched for the result of a constant-table lookup
	// is itself a table over the same index (e.g. alphabet[index] decoded again)
	if x, vals, ok := term.AsTable(b); ok {
		allConst := true
		for _, h := range bs {
			if !h.IsConst() {
				allConst = false
				break
			}
		}
		if allConst {
			out := make([]uint64, len(vals))
			for j, v := range vals {
				out[j] = ^uint64(0)
				for k, h := range bs {
					if h.K == v {
						out[j] = uint64(k)
						break
					}
				}
			}
			return c.TableT(x, out, 64)
		}
	}
	r := c.BV(64, ^uint64(0))
	for k := len(bs) - 1; k >= 0; k-- {
		r = c.IteT(c.EqT(bs[k], b), c.BV(64, uint64(k)), r)
	}
	return r
}

// fmtString models fmt.Sprintf: with a constant format whose verbs are all
// %s/%v/%d/%q applied to strings or concrete integers, the result is the
// concatenation; otherwise an opaque constant.
func (i *interp) fmtString(format value, args value) value {
	f, ok := format.(string)
	if !ok {
		return "<fmt>"
	}
	as, _ := args.([]value)
	var out []*term.T
	ai := 0
	lit := func(s string) {
		for k := 0; k < len(s); k++ {
			out = append(out, i.ctx.BV(8, uint64(s[k])))
		}
	}
	for k := 0; k < len(f); k++ {
		if f[k] != '%' {
			lit(f[k : k+1])
			continue
		}
		k++
		if k >= len(f) {
			return "<fmt:" + f + ">"
		}
		if f[k] == '%' {
			lit("%")
			continue
		}
		if ai >= len(as) {
			return "<fmt:" + f + ">"
		}
		a, _ := as[ai].(iface)
		ai++
		switch f[k] {
		case 's', 'v', 'd', 'q', 'X', 'x':
			switch v := a.v.(type) {
			case string, symstr:
				if f[k] == 'q' {
					lit("\"")
					out = append(out, i.strBytes(v)...)
					lit("\"")
				} else if f[k] == 's' || f[k] == 'v' {
					out = append(out, i.strBytes(v)...)
				} else {
					return "<fmt:" + f + ">"
				}
			case *term.T:
				if !v.IsConst() || v.W <= 0 {
					return "<fmt:" + f + ">"
				}
				_, signed, _ := intInfo(a.t)
				if f[k] == 'x' || f[k] == 'X' {
					return "<fmt:" + f + ">"
				}
				if signed {
					lit(strconv.FormatInt(term.SignExt64(v.K, v.W), 10))
				} else {
					lit(strconv.FormatUint(v.K, 10))
				}
			default:
				return "<fmt:" + f + ">"
			}
		default:
			return "<fmt:" + f + ">"
		}
	}
	return mkStr(out)
}

// newError builds an error value by calling errors.New in the program.
func (i *interp) newError(caller *frame, msg value) value {
	p := i.prog.ImportedPackage("errors")
	if p == nil {
		unsupported("package errors not in program")
	}
	return i.callSSA(caller, token.NoPos, p.Func("New"), []value{msg}, nil)
}

// ---- sync/atomic as plain memory operations

func addAtomics() {
	for _, ty := range []string{"Int32", "Int64", "Uint32", "Uint64", "Uintptr", "Pointer"} {
		ty := ty
		intrinsics["sync/atomic.Load"+ty] = func(i *interp, caller *frame, fn *ssa.Function, args []value) value {
			return i.loadPtr(deref(fn.Signature.Params().At(0).Type()), args[0])
		}
		intrinsics["sync/atomic.Store"+ty] = func(i *interp, caller *frame, fn *ssa.Function, args []value) value {
			i.storePtr(deref(fn.Signature.Params().At(0).Type()), args[0], args[1])
			return nil
		}
		intrinsics["sync/atomic.Swap"+ty] = func(i *interp, caller *frame, fn *ssa.Function, args []value) value {
			T := deref(fn.Signature.Params().At(0).Type())
			old := i.loadPtr(T, args[0])
			i.storePtr(T, args[0], args[1])
			return old
		}
		intrinsics["sync/atomic.CompareAndSwap"+ty] = func(i *interp, caller *frame, fn *ssa.Function, args []value) value {
			T := deref(fn.Signature.Params().At(0).Type())
			old := i.loadPtr(T, args[0])
			eq := i.equalsT(T, old, args[1])
			if i.decide(eq, "CompareAndSwap") {
				i.storePtr(T, args[0], args[2])
				return i.ctx.True()
			}
			return i.ctx.False()
		}
		if ty != "Pointer" {
			intrinsics["sync/atomic.Add"+ty] = func(i *interp, caller *frame, fn *ssa.Function, args []value) value {
				T := deref(fn.Signature.Params().At(0).Type())
				old := i.loadPtr(T, args[0]).(*term.T)
				nv := i.ctx.Bin(term.Add, old, args[1].(*term.T))
				i.storePtr(T, args[0], nv)
				return nv
			}
		}
	}
}

// ---- sort: executed as insertion sort calling the interpreted comparison

func addSort() {
	intrinsics["sort.Slice"] = func(i *interp, caller *frame, fn *ssa.Function, args []value) value {
		s := args[0].(iface).v.([]value)
		less := args[1]
		i.insertionSort(caller, s, less)
		return nil
	}
	intrinsics["sort.SliceStable"] = intrinsics["sort.Slice"]
}

func (i *interp) insertionSort(caller *frame, s []value, less value) {
	// less(a, b int) refers to positions in the live slice, so swap in place.
	for a := 1; a < len(s); a++ {
		for b := a; b > 0; b-- {
			r := i.call(caller, token.NoPos, less, []value{i.ctx.BV(64, uint64(b)), i.ctx.BV(64, uint64(b-1))}, nil).(*term.T)
			if !i.decide(r, "sort less") {
				break
			}
			s[b], s[b-1] = s[b-1], s[b]
		}
	}
}

// ---- math/big.Int as SMT Int

func (i *interp) bigGet(p value) *term.T {
	pp, ok := p.(*value)
	if !ok || pp == nil {
		i.throw("nil *big.Int dereference")
	}
	s := (*pp).(structure)
	if t, ok := s[0].(*term.T); ok && t.W == term.SortInt {
		return t
	}
	return i.ctx.IntI64(0)
}

func (i *interp) bigSet(p value, t *term.T) value {
	pp := p.(*value)
	if pp == nil {
		i.throw("nil *big.Int dereference")
	}
	s := (*pp).(structure)
	s[0] = t
	return p
}

func (i *interp) bigNew(fn *ssa.Function, t *term.T) value {
	var cell value = i.zero(deref(fn.Signature.Results().At(0).Type()))
	cell.(structure)[0] = t
	return &cell
}

func addBig() {
	bin := func(op term.Op) intrinsicFn {
		return func(i *interp, caller *frame, fn *ssa.Function, args []value) value {
			return i.bigSet(args[0], i.ctx.IBin(op, i.bigGet(args[1]), i.bigGet(args[2])))
		}
	}
	c64 := func(i *interp, b *term.T, t, f int64) *term.T {
		return i.ctx.IteT(b, i.ctx.BV(64, uint64(t)), i.ctx.BV(64, uint64(f)))
	}
	intrinsics["math/big.NewInt"] = func(i *interp, caller *frame, fn *ssa.Function, args []value) value {
		return i.bigNew(fn, i.ctx.BV2Int(args[0].(*term.T), true))
	}
	intrinsics["(*math/big.Int).SetInt64"] = func(i *interp, caller *frame, fn *ssa.Function, args []value) value {
		return i.bigSet(args[0], i.ctx.BV2Int(args[1].(*term.T), true))
	}
	intrinsics["(*math/big.Int).SetUint64"] = func(i *interp, caller *frame, fn *ssa.Function, args []value) value {
		return i.bigSet(args[0], i.ctx.BV2Int(args[1].(*term.T), false))
	}
	intrinsics["(*math/big.Int).Set"] = func(i *interp, caller *frame, fn *ssa.Function, args []value) value {
		return i.bigSet(args[0], i.bigGet(args[1]))
	}
	intrinsics["(*math/big.Int).Add"] = bin(term.IAdd)
	intrinsics["(*math/big.Int).Sub"] = bin(term.ISub)
	intrinsics["(*math/big.Int).Mul"] = bin(term.IMul)
	divlike := func(euclid, rem bool) intrinsicFn {
		return func(i *interp, caller *frame, fn *ssa.Function, args []value) value {
			c := i.ctx
			x, y := i.bigGet(args[1]), i.bigGet(args[2])
			if i.decide(c.EqT(y, c.IntI64(0)), "big division by zero") {
				panic(targetPanic{v: iface{t: types.Typ[types.String], v: "division by zero"}, where: i.where()})
			}
			var r *term.T
			if euclid {
				if rem {
					r = c.IBin(term.IMod, x, y)
				} else {
					r = c.IBin(term.IDiv, x, y)
				}
			} else {
				// truncated: sign(x)*sign(y) * (|x| div |y|);  rem has the sign of x
				zero := c.IntI64(0)
				ax := c.IteT(c.Cmp(term.ILt, x, zero), c.INegT(x), x)
				ay := c.IteT(c.Cmp(term.ILt, y, zero), c.INegT(y), y)
				if rem {
					m := c.IBin(term.IMod, ax, ay)
					r = c.IteT(c.Cmp(term.ILt, x, zero), c.INegT(m), m)
				} else {
					q := c.IBin(term.IDiv, ax, ay)
					neg := c.NotB(c.EqT(c.Cmp(term.ILt, x, zero), c.Cmp(term.ILt, y, zero)))
					r = c.IteT(neg, c.INegT(q), q)
				}
			}
			return i.bigSet(args[0], r)
		}
	}
	intrinsics["(*math/big.Int).Div"] = divlike(true, false)
	intrinsics["(*math/big.Int).Mod"] = divlike(true, true)
	intrinsics["(*math/big.Int).Quo"] = divlike(false, false)
	intrinsics["(*math/big.Int).Rem"] = divlike(false, true)
	intrinsics["(*math/big.Int).Neg"] = func(i *interp, caller *frame, fn *ssa.Function, args []value) value {
		return i.bigSet(args[0], i.ctx.INegT(i.bigGet(args[1])))
	}
	intrinsics["(*math/big.Int).Abs"] = func(i *interp, caller *frame, fn *ssa.Function, args []value) value {
		c := i.ctx
		x := i.bigGet(args[1])
		return i.bigSet(args[0], c.IteT(c.Cmp(term.ILt, x, c.IntI64(0)), c.INegT(x), x))
	}
	intrinsics["(*math/big.Int).Cmp"] = func(i *interp, caller *frame, fn *ssa.Function, args []value) value {
		c := i.ctx
		x, y := i.bigGet(args[0]), i.bigGet(args[1])
		return c.IteT(c.Cmp(term.ILt, x, y), c.BV(64, ^uint64(0)), c64(i, c.EqT(x, y), 0, 1))
	}
	intrinsics["(*math/big.Int).Sign"] = func(i *interp, caller *frame, fn *ssa.Function, args []value) value {
		c := i.ctx
		x := i.bigGet(args[0])
		z := c.IntI64(0)
		return c.IteT(c.Cmp(term.ILt, x, z), c.BV(64, ^uint64(0)), c64(i, c.EqT(x, z), 0, 1))
	}
	intrinsics["(*math/big.Int).IsInt64"] = func(i *interp, caller *frame, fn *ssa.Function, args []value) value {
		c := i.ctx
		x := i.bigGet(args[0])
		lo := c.Int(new(big.Int).SetInt64(math.MinInt64))
		hi := c.Int(new(big.Int).SetInt64(math.MaxInt64))
		return c.AndB(c.Cmp(term.ILe, lo, x), c.Cmp(term.ILe, x, hi))
	}
	intrinsics["(*math/big.Int).IsUint64"] = func(i *interp, caller *frame, fn *ssa.Function, args []value) value {
		c := i.ctx
		x := i.bigGet(args[0])
		hi := c.Int(new(big.Int).SetUint64(math.MaxUint64))
		return c.AndB(c.Cmp(term.ILe, c.IntI64(0), x), c.Cmp(term.ILe, x, hi))
	}
	intrinsics["(*math/big.Int).Int64"] = func(i *interp, caller *frame, fn *ssa.Function, args []value) value {
		return i.ctx.Int2BVT(i.bigGet(args[0]), 64)
	}
	intrinsics["(*math/big.Int).Uint64"] = func(i *interp, caller *frame, fn *ssa.Function, args []value) value {
		return i.ctx.Int2BVT(i.bigGet(args[0]), 64)
	}
	intrinsics["(*math/big.Int).String"] = func(i *interp, caller *frame, fn *ssa.Function, args []value) value {
		x := i.bigGet(args[0])
		if x.IsConst() {
			return x.Big.String()
		}
		return "<big.Int>"
	}
	intrinsics["(*math/big.Int).Lsh"] = func(i *interp, caller *frame, fn *ssa.Function, args []value) value {
		n, ok := constInt(args[2])
		if !ok || n > 4096 {
			unsupported("big.Int.Lsh by a symbolic amount")
		}
		return i.bigSet(args[0], i.ctx.IBin(term.IMul, i.bigGet(args[1]), i.ctx.Int(new(big.Int).Lsh(big.NewInt(1), uint(n)))))
	}
	intrinsics["(*math/big.Int).Rsh"] = func(i *interp, caller *frame, fn *ssa.Function, args []value) value {
		n, ok := constInt(args[2])
		if !ok || n > 4096 {
			unsupported("big.Int.Rsh by a symbolic amount")
		}
		// arithmetic shift = floor division
		return i.bigSet(args[0], i.ctx.IBin(term.IDiv, i.bigGet(args[1]), i.ctx.Int(new(big.Int).Lsh(big.NewInt(1), uint(n)))))
	}
}

var _ = fmt.Sprint
