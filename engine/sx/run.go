package sx

import (
	"math/big"
	"fmt"
	"go/token"
	"os"
	"os/exec"
	"runtime/debug"
	"strings"
	"sync"
	"time"

	"golang.org/x/tools/go/ssa"

	"verif/engine/solver"
	"verif/engine/term"
)

type Engine struct {
	Prog *ssa.Program
	Cfg  *Config
}

// PathSample is one completed path with a concrete input vector driving it.
type PathSample struct {
	Vector  map[string]string `json:"vector"`
	Reach   []string          `json:"reach"`
	Asserts []string          `json:"asserts"`
	Panic   string            `json:"panic,omitempty"`
}

type HarnessResult struct {
	Name           string
	Paths          int // completed paths (incl. assume-pruned)
	PathsPruned    int
	Decisions      int
	IfConverted    int `json:"if_converted,omitempty"`
	Obligations    int
	Discharged     int
	DischargedTriv int
	Violations     []*Violation
	Inconclusive   []string
	UnknownBranch  []string
	Reach          map[string]int
	Samples        []PathSample
	Funcs          map[string]bool
	SolverQueries  int
	SolverTime     time.Duration
	Wall           time.Duration
	Steps          int64
}

type harnessRun struct {
	eng  *Engine
	name string
	fn   *ssa.Function

	mu      sync.Mutex
	cond    *sync.Cond
	stack   [][]int
	active  int
	stopped bool
	res     *HarnessResult
	started int
	deadline time.Time
}

func (h *harnessRun) push(prefix []int) {
	h.mu.Lock()
	h.stack = append(h.stack, prefix)
	h.mu.Unlock()
	h.cond.Signal()
}

func (h *harnessRun) noteIfConv()     { h.mu.Lock(); h.res.IfConverted++; h.mu.Unlock() }
func (h *harnessRun) noteDecision()   { h.mu.Lock(); h.res.Decisions++; h.mu.Unlock() }
func (h *harnessRun) noteObligation() { h.mu.Lock(); h.res.Obligations++; h.mu.Unlock() }
func (h *harnessRun) noteDischarged(trivial bool) {
	h.mu.Lock()
	h.res.Discharged++
	if trivial {
		h.res.DischargedTriv++
	}
	h.mu.Unlock()
}
func (h *harnessRun) noteInconclusive(msg string) {
	h.mu.Lock()
	if len(h.res.Inconclusive) < 50 {
		h.res.Inconclusive = append(h.res.Inconclusive, msg)
	}
	h.mu.Unlock()
}
func (h *harnessRun) noteUnknownBranch(msg string) {
	h.mu.Lock()
	if len(h.res.UnknownBranch) < 50 {
		h.res.UnknownBranch = append(h.res.UnknownBranch, msg)
	}
	h.mu.Unlock()
}
func (h *harnessRun) noteViolation(v *Violation) {
	h.mu.Lock()
	// keep one witness per (label, structural shape), up to 48 shapes per
	// label: witnesses from different structural choices (verifChoose) are
	// different scenarios, and only some of them may replay natively (e.g.
	// those that do not depend on the value of an uninterpreted hash).
	n := 0
	dup := false
	for _, o := range h.res.Violations {
		if o.Label == v.Label && o.Panic == v.Panic {
			n++
			if o.Shape == v.Shape {
				dup = true
			}
		}
	}
	if !dup && n < 48 {
		h.res.Violations = append(h.res.Violations, v)
	}
	h.mu.Unlock()
}

// RunHarness explores every path of the harness function within the bounds.
func (e *Engine) RunHarness(fn *ssa.Function) *HarnessResult {
	e.Cfg.fill()
	start := time.Now()
	h := &harnessRun{eng: e, name: fn.Name(), fn: fn,
		res:      &HarnessResult{Name: fn.Name(), Reach: map[string]int{}, Funcs: map[string]bool{}},
		deadline: start.Add(time.Duration(e.Cfg.WallS) * time.Second)}
	h.cond = sync.NewCond(&h.mu)
	h.stack = [][]int{nil}
	var wg sync.WaitGroup
	nw := e.Cfg.Workers
	if e.Cfg.Concrete != nil {
		nw = 1
	}
	for w := 0; w < nw; w++ {
		wg.Add(1)
		go func() {
			defer wg.Done()
			h.worker()
		}()
	}
	wg.Wait()
	h.res.Wall = time.Since(start)
	return h.res
}

func (h *harnessRun) worker() {
	cfg := h.eng.Cfg
	sess, err := newSession(cfg.Solver, cfg.Mode, cfg.TimeoutMs)
	if err != nil {
		h.noteInconclusive("cannot start solver: " + err.Error())
		return
	}
	if cfg.OneShotAll {
		run1 := func(kind, script string) solver.Result {
			var cmd *exec.Cmd
			if kind == "cvc5" {
				cmd = exec.Command("cvc5", "--lang=smt2", fmt.Sprintf("--tlimit=%d", cfg.TimeoutMs))
				script = "(set-logic ALL)\n" + script
			} else {
				cmd = exec.Command(kind, "-in", fmt.Sprintf("-T:%d", cfg.TimeoutMs/1000+1))
			}
			cmd.Stdin = strings.NewReader(script)
			start := time.Now()
			out, _ := cmd.CombinedOutput()
			sess.s.Time += time.Since(start)
			txt := string(out)
			if strings.Contains(txt, "(error") {
				return solver.Unknown
			}
			for _, l := range strings.Split(txt, "\n") {
				switch strings.TrimSpace(l) {
				case "unsat":
					return solver.Unsat
				case "sat":
					return solver.Sat
				}
			}
			return solver.Unknown
		}
		sess.fresh = func(script string) solver.Result {
			r := run1(cfg.Solver, script)
			if r == solver.Unknown && cfg.SolverAlt != "" {
				r = run1(cfg.SolverAlt, script)
			}
			return r
		}
	}
	defer func() {
		h.mu.Lock()
		h.res.SolverQueries += sess.s.Queries
		h.res.SolverTime += sess.s.Time
		h.mu.Unlock()
		sess.s.Close()
	}()
	for {
		h.mu.Lock()
		for len(h.stack) == 0 && h.active > 0 && !h.stopped {
			h.cond.Wait()
		}
		if h.stopped || (len(h.stack) == 0 && h.active == 0) {
			h.mu.Unlock()
			h.cond.Broadcast()
			return
		}
		prefix := h.stack[len(h.stack)-1]
		h.stack = h.stack[:len(h.stack)-1]
		h.active++
		h.started++
		over := h.started > cfg.MaxPaths || time.Now().After(h.deadline)
		if over {
			h.stopped = true
			if len(h.res.Inconclusive) < 50 {
				h.res.Inconclusive = append(h.res.Inconclusive, fmt.Sprintf("path/wall budget exhausted after %d paths (%d pending)", h.started-1, len(h.stack)+1))
			}
			h.active--
			h.mu.Unlock()
			h.cond.Broadcast()
			return
		}
		h.mu.Unlock()

		h.runPath(sess, prefix)

		h.mu.Lock()
		h.active--
		h.mu.Unlock()
		h.cond.Broadcast()
		if !sess.s.Alive() {
			// restart a dead solver
			sess.s.Close()
			ns, err := newSession(cfg.Solver, cfg.Mode, cfg.TimeoutMs)
			if err != nil {
				h.noteInconclusive("cannot restart solver: " + err.Error())
				return
			}
			ns.s.Queries, ns.s.Time = sess.s.Queries, sess.s.Time
			*sess = *ns
		}
	}
}

func (h *harnessRun) runPath(sess *session, prefix []int) {
	cfg := h.eng.Cfg
	i := &interp{
		prog:    h.eng.Prog,
		ctx:     term.NewCtx(),
		cfg:     cfg,
		globals: map[*ssa.Global]*value{},
		inited:  map[*ssa.Package]bool{},
		funcs:   map[string]bool{},
	}
	i.ctx.XorNF = cfg.XorNF
	p := &pathState{eng: h.eng, h: h, prefix: prefix, sess: sess, names: map[string]int{}}
	p.interp = i
	i.path = p
	sess.begin()
	defer sess.end()
	pruned := false
	panicMsg := ""
	func() {
		defer func() {
			r := recover()
			switch r := r.(type) {
			case nil:
			case stopPath:
				if strings.HasPrefix(r.reason, "assume") || strings.HasPrefix(r.reason, "assertion") {
					pruned = true
				} else {
					h.noteInconclusive(r.reason)
					pruned = true
				}
			case targetPanic:
				// uncaught panic of the code under test: a violation of the
				// implicit "never panics" obligation
				panicMsg = i.describePanic(r)
				h.noteObligation()
				vec, ok := i.currentModel()
				if !ok && !i.cfg.OneShotAll && i.cfg.Concrete == nil && p.sess.check(nil) == solver.Unsat {
					// the path condition is unsatisfiable: this path was entered
					// only because an earlier feasibility query came back unknown
					// (both sides are kept then); no input reaches the panic
					h.noteDischarged(false)
					pruned = true
				} else if !ok {
					h.noteInconclusive("uncaught panic " + panicMsg + " but no model")
				} else {
					h.noteViolation(&Violation{Harness: h.name, Label: "uncaught-panic", Where: r.where, Vector: vec, Shape: p.shape(),
						Path: append([]int(nil), p.trace...), Panic: panicMsg})
				}
			case engineErr:
				h.noteInconclusive(r.Error() + " at " + i.where() + " stack: " + i.stack())
				pruned = true
			default:
				h.noteInconclusive(fmt.Sprintf("engine crash: %v at %s\n%s", r, i.where(), firstLines(string(debug.Stack()), 30)))
				pruned = true
			}
		}()
		i.callSSA(nil, token.NoPos, h.fn, nil, nil)
	}()
	if len(sess.s.Errors) > 0 {
		h.noteInconclusive("solver error: " + sess.s.Errors[len(sess.s.Errors)-1])
		sess.s.Errors = nil
	}
	if sess.pr.Err != nil {
		h.noteInconclusive("rendering: " + sess.pr.Err.Error())
		sess.pr.Err = nil
	}
	h.mu.Lock()
	h.res.Paths++
	if pruned {
		h.res.PathsPruned++
	}
	h.res.Steps += i.steps
	for f := range i.funcs {
		h.res.Funcs[f] = true
	}
	for _, l := range p.reach {
		h.res.Reach[l]++
	}
	need := !pruned && len(h.res.Samples) < cfg.SampleModels
	h.mu.Unlock()
	if need {
		if vec, ok := i.currentModel(); ok {
			h.mu.Lock()
			h.res.Samples = append(h.res.Samples, PathSample{Vector: vec, Reach: p.reach, Asserts: p.asserts, Panic: panicMsg})
			h.mu.Unlock()
		}
	}
	if cfg.Verbose {
		fmt.Fprintf(os.Stderr, "path %v: steps=%d pruned=%v reach=%v\n", p.trace, i.steps, pruned, p.reach)
	}
}

func firstLines(s string, n int) string {
	ls := strings.Split(s, "\n")
	if len(ls) > n {
		ls = ls[:n]
	}
	return strings.Join(ls, "\n")
}

// crossCheck re-runs "path condition ∧ extra" in a fresh process of a second solver.
func (e *Engine) crossCheck(ss *session, extra *term.T, cfg *Config) solver.Result {
	var sb strings.Builder
	if cfg.Solver2 == "cvc5" {
		sb.WriteString("(set-logic ALL)\n")
	}
	sb.WriteString(ss.script.String())
	sb.WriteString("(assert " + ss.pr.Ref(extra) + ")\n(check-sat)\n")
	var cmd *exec.Cmd
	switch cfg.Solver2 {
	case "cvc5":
		cmd = exec.Command("cvc5", "--lang=smt2", fmt.Sprintf("--tlimit=%d", cfg.TimeoutMs))
	default:
		cmd = exec.Command(cfg.Solver2, "-in", fmt.Sprintf("-T:%d", cfg.TimeoutMs/1000+1))
	}
	cmd.Stdin = strings.NewReader(sb.String())
	out, _ := cmd.CombinedOutput()
	txt := string(out)
	if strings.Contains(txt, "(error") {
		return solver.Unknown
	}
	for _, l := range strings.Split(txt, "\n") {
		switch strings.TrimSpace(l) {
		case "unsat":
			return solver.Unsat
		case "sat":
			return solver.Sat
		}
	}
	return solver.Unknown
}

// oneShot decides "path condition ∧ extra" in a fresh solver process (the
// full tactic pipeline; much faster than the incremental core on
// floating-point goals) and, when satisfiable, returns the model.
func (e *Engine) oneShot(ss *session, extra *term.T, cfg *Config) (solver.Result, map[string]*big.Int) {
	r, m := e.oneShotWith(cfg.Solver, ss, extra, cfg)
	if r == solver.Unknown && cfg.SolverAlt != "" {
		// the two solvers have complementary strengths on nonlinear integer
		// goals (cvc5 refutes, z3 finds models): ask the other one
		r, m = e.oneShotWith(cfg.SolverAlt, ss, extra, cfg)
	}
	return r, m
}

func (e *Engine) oneShotWith(kind string, ss *session, extra *term.T, cfg *Config) (solver.Result, map[string]*big.Int) {
	ref := ss.define(extra)
	var sb strings.Builder
	sb.WriteString(ss.script.String())
	sb.WriteString("(assert " + ref + ")\n(check-sat)\n")
	names := make([]string, len(ss.vars))
	for k, v := range ss.vars {
		names[k] = ss.pr.Ref(v)
	}
	if len(names) > 0 {
		sb.WriteString("(get-value (" + strings.Join(names, " ") + "))\n")
	}
	var cmd *exec.Cmd
	if kind == "cvc5" {
		cmd = exec.Command("cvc5", "--lang=smt2", "--produce-models", fmt.Sprintf("--tlimit=%d", cfg.TimeoutMs))
		full := "(set-logic ALL)\n" + sb.String()
		sb.Reset()
		sb.WriteString(full)
	} else {
		cmd = exec.Command(kind, "-in", fmt.Sprintf("-T:%d", cfg.TimeoutMs/1000+1))
	}
	if d := os.Getenv("VERIF_DUMP"); d != "" {
		os.MkdirAll(d, 0o755)
		ss.nCheck++
		os.WriteFile(fmt.Sprintf("%s/o%d_%d.smt2", d, os.Getpid(), ss.nCheck), []byte(sb.String()), 0o644)
	}
	cmd.Stdin = strings.NewReader(sb.String())
	start := time.Now()
	out, _ := cmd.CombinedOutput()
	ss.s.Queries++
	ss.s.Time += time.Since(start)
	txt := string(out)
	nl := strings.IndexByte(txt, '\n')
	first, rest := txt, ""
	if nl >= 0 {
		first, rest = strings.TrimSpace(txt[:nl]), txt[nl+1:]
	}
	switch first {
	case "unsat":
		// the verdict is the first line; what follows is only the solver
		// declining (get-value) after unsat
		return solver.Unsat, nil
	case "sat":
		m := map[string]*big.Int{}
		vals := map[string]*big.Int{}
		if err := solver.ParseValues(strings.TrimSpace(rest), vals); err != nil {
			return solver.Sat, nil
		}
		for k, v := range ss.vars {
			if x, ok := vals[names[k]]; ok {
				m[v.Name] = x
			}
		}
		return solver.Sat, m
	}
	return solver.Unknown, nil
}
