package sx

import (
	"os"
	"fmt"
	"go/token"
	"go/types"
	"slices"
	"strings"

	"golang.org/x/tools/go/ssa"

	"verif/engine/term"
)

type continuation int

const (
	kNext continuation = iota
	kReturn
	kJump
)

type deferred struct {
	fn    value
	args  []value
	instr *ssa.Defer
	tail  *deferred
}

type frame struct {
	i                *interp
	caller           *frame
	fn               *ssa.Function
	block, prevBlock *ssa.BasicBlock
	phiOverride      map[*ssa.Phi]value // set by if-conversion: merged values for the join block's phis
	env              map[ssa.Value]value
	locals           []value
	defers           *deferred
	result           value
	panicking        bool
	panic            any
	phitemps         []value
	cur              ssa.Instruction
}

// interp is the state of one path execution.
type interp struct {
	prog     *ssa.Program
	ctx      *term.Ctx
	cfg      *Config
	path     *pathState
	globals  map[*ssa.Global]*value
	inited   map[*ssa.Package]bool
	steps    int64
	curFrame *frame
	spec     int // >0: executing an arm speculatively (zifconv.go); decisions abort
	ifPlans  map[*ssa.If]*ifConvPlan
	errType  types.Type
	funcs    map[string]bool // functions executed (coverage report)
	onceDone map[*value]bool
	syncMaps map[*value]*amap
	shaState map[*value]*[]*term.T
}

func (i *interp) runtimeErrorType() types.Type {
	if i.errType == nil {
		if p := i.prog.ImportedPackage("runtime"); p != nil {
			if t := p.Type("errorString"); t != nil {
				i.errType = t.Object().Type()
			}
		}
		if i.errType == nil {
			i.errType = types.Typ[types.String]
		}
	}
	return i.errType
}

func (i *interp) where() string {
	fr := i.curFrame
	if fr == nil || fr.cur == nil {
		return ""
	}
	return fr.fn.String() + " " + i.prog.Fset.Position(fr.cur.Pos()).String()
}

// findFunc looks a package-level function up by bare name (harness stubs).
func (i *interp) findFunc(name string) *ssa.Function {
	for _, p := range i.prog.AllPackages() {
		if f := p.Func(name); f != nil && strings.HasPrefix(name, "verif") {
			return f
		}
	}
	return nil
}

func (i *interp) stack() string {
	var sb strings.Builder
	n := 0
	for fr := i.curFrame; fr != nil && n < 14; fr = fr.caller {
		if n > 0 {
			sb.WriteString(" < ")
		}
		sb.WriteString(fr.fn.String())
		n++
	}
	return sb.String()
}

func (fr *frame) get(key ssa.Value) value {
	switch key := key.(type) {
	case nil:
		return nil
	case *ssa.Function, *ssa.Builtin:
		return key
	case *ssa.Const:
		return fr.i.constValue(key)
	case *ssa.Global:
		return fr.i.globalAddr(key)
	}
	if r, ok := fr.env[key]; ok {
		return r
	}
	panic(engineErr{fmt.Sprintf("get: no value for %T: %v in %s", key, key.Name(), fr.fn)})
}

// ---- lazy package initialisation

func (i *interp) globalAddr(g *ssa.Global) *value {
	if r, ok := i.globals[g]; ok {
		return r
	}
	i.ensureInit(g.Pkg)
	if r, ok := i.globals[g]; ok {
		return r
	}
	cell := i.zero(deref(g.Type()))
	i.globals[g] = &cell
	return &cell
}

func (i *interp) ensureInit(p *ssa.Package) {
	if p == nil || i.inited[p] {
		return
	}
	i.inited[p] = true
	for _, m := range p.Members {
		if g, ok := m.(*ssa.Global); ok {
			if _, ok := i.globals[g]; !ok {
				cell := i.zero(deref(g.Type()))
				i.globals[g] = &cell
			}
		}
	}
	path := p.Pkg.Path()
	if i.cfg.noInit(path) {
		return
	}
	if init := p.Func("init"); init != nil && init.Blocks != nil {
		saved := i.curFrame
		i.callSSA(nil, token.NoPos, init, nil, nil)
		i.curFrame = saved
	}
}

func (fr *frame) runDefer(d *deferred) {
	var ok bool
	defer func() {
		if !ok {
			r := recover()
			switch r.(type) {
			case targetPanic:
				fr.panicking = true
				fr.panic = r
			default:
				panic(r)
			}
		}
	}()
	fr.i.call(fr, d.instr.Pos(), d.fn, d.args, nil)
	ok = true
}

func (fr *frame) runDefers() {
	for d := fr.defers; d != nil; d = d.tail {
		fr.defers = d.tail
		fr.runDefer(d)
	}
	fr.defers = nil
	if fr.panicking {
		panic(fr.panic)
	}
}

func (i *interp) lookupMethod(typ types.Type, meth *types.Func) *ssa.Function {
	return i.prog.LookupMethod(typ, meth.Pkg(), meth.Name())
}

func (i *interp) visitInstr(fr *frame, instr ssa.Instruction) continuation {
	fr.cur = instr
	i.steps++
	if i.steps > i.cfg.MaxSteps {
		panic(stopPath{"step budget exceeded at " + i.where()})
	}
	switch instr := instr.(type) {
	case *ssa.DebugRef:

	case *ssa.UnOp:
		fr.env[instr] = i.unop(instr, fr.get(instr.X))

	case *ssa.BinOp:
		fr.env[instr] = i.binop(instr.Op, instr.X.Type(), instr.Y.Type(), fr.get(instr.X), fr.get(instr.Y))

	case *ssa.Call:
		fn, args := i.prepareCall(fr, &instr.Call)
		fr.env[instr] = i.call(fr, instr.Pos(), fn, args, instr.Call.Args)
		i.curFrame = fr

	case *ssa.ChangeInterface:
		fr.env[instr] = fr.get(instr.X)

	case *ssa.ChangeType:
		fr.env[instr] = fr.get(instr.X)

	case *ssa.Convert:
		fr.env[instr] = i.conv(instr.Type(), instr.X.Type(), fr.get(instr.X))

	case *ssa.MultiConvert:
		fr.env[instr] = i.conv(instr.Type(), instr.X.Type(), fr.get(instr.X))

	case *ssa.SliceToArrayPointer:
		fr.env[instr] = i.sliceToArrayPointer(instr.Type(), fr.get(instr.X))

	case *ssa.MakeInterface:
		fr.env[instr] = iface{t: instr.X.Type(), v: copyVal(fr.get(instr.X))}

	case *ssa.Extract:
		fr.env[instr] = fr.get(instr.Tuple).(tuple)[instr.Index]

	case *ssa.Slice:
		fr.env[instr] = i.slice(instr, fr.get(instr.X), fr.get(instr.Low), fr.get(instr.High), fr.get(instr.Max))

	case *ssa.Return:
		switch len(instr.Results) {
		case 0:
		case 1:
			fr.result = fr.get(instr.Results[0])
		default:
			var res []value
			for _, r := range instr.Results {
				res = append(res, fr.get(r))
			}
			fr.result = tuple(res)
		}
		fr.block = nil
		return kReturn

	case *ssa.RunDefers:
		fr.runDefers()
		i.curFrame = fr

	case *ssa.Panic:
		if os.Getenv("VERIF_DEBUG_THROW") != "" {
			fmt.Fprintf(os.Stderr, "PANIC at %s stack: %s\n", i.where(), i.stack())
		}
		panic(targetPanic{v: fr.get(instr.X), where: i.where()})

	case *ssa.Send:
		ch := fr.get(instr.Chan).(*chanv)
		if ch == nil || len(ch.buf) >= ch.cap {
			unsupported("send on full/nil channel (would block)")
		}
		ch.buf = append(ch.buf, fr.get(instr.X))

	case *ssa.Store:
		i.storePtr(deref(instr.Addr.Type()), fr.get(instr.Addr), copyVal(fr.get(instr.Val)))

	case *ssa.If:
		succ := 1
		cond := fr.get(instr.Cond).(*term.T)
		if i.cfg.IfConv && !cond.IsTrue() && !cond.IsFalse() && i.ifConvert(fr, instr, cond) {
			return kJump
		}
		if i.decide(cond, "if") {
			succ = 0
		}
		fr.prevBlock, fr.block = fr.block, fr.block.Succs[succ]
		return kJump

	case *ssa.Jump:
		fr.prevBlock, fr.block = fr.block, fr.block.Succs[0]
		return kJump

	case *ssa.Defer:
		fn, args := i.prepareCall(fr, &instr.Call)
		defers := &fr.defers
		if instr.DeferStack != nil {
			if into := fr.get(instr.DeferStack); into != nil {
				defers = into.(**deferred)
			}
		}
		*defers = &deferred{fn: fn, args: args, instr: instr, tail: *defers}

	case *ssa.Go:
		unsupported("go statement in %s", fr.fn)

	case *ssa.MakeChan:
		n := i.mustInt(fr.get(instr.Size), instr.Size.Type(), "channel size")
		fr.env[instr] = &chanv{cap: int(n)}

	case *ssa.Alloc:
		var addr *value
		if instr.Heap {
			addr = new(value)
			fr.env[instr] = addr
		} else {
			addr = fr.env[instr].(*value)
		}
		*addr = i.zero(deref(instr.Type()))

	case *ssa.MakeSlice:
		var ln int64
		if lt, isT := fr.get(instr.Len).(*term.T); isT && !lt.IsConst() {
			// symbolic length: case split over the small concrete lengths
			_, signed, _ := intInfo(instr.Len.Type())
			if signed && i.decide(i.ctx.Cmp(term.Slt, lt, i.ctx.BV(lt.W, 0)), "make len < 0") {
				i.throw("makeslice: len out of range")
			}
			found := false
			for k := 0; k <= i.cfg.MaxIndexFork; k++ {
				if i.decide(i.ctx.EqT(lt, i.ctx.BV(lt.W, uint64(k))), "make len == k") {
					ln, found = int64(k), true
					break
				}
			}
			if !found {
				unsupported("make with a symbolic length that may exceed %d", i.cfg.MaxIndexFork)
			}
		} else {
			ln = i.mustInt(fr.get(instr.Len), instr.Len.Type(), "make len")
		}
		var cp int64
		if ct, isT := fr.get(instr.Cap).(*term.T); isT && !ct.IsConst() {
			// symbolic capacity with a concrete length: the capacity only
			// matters for the range check (the slice is fresh, so reallocation
			// on append is unobservable); the slice gets capacity = length
			_, signed, _ := intInfo(instr.Cap.Type())
			w := ct.W
			lo := i.ctx.BV(w, uint64(ln))
			hi := i.ctx.BV(w, uint64(i.cfg.MaxAlloc))
			var small, big *term.T
			if signed {
				small, big = i.ctx.Cmp(term.Slt, ct, lo), i.ctx.Cmp(term.Slt, hi, ct)
			} else {
				small, big = i.ctx.Cmp(term.Ult, ct, lo), i.ctx.Cmp(term.Ult, hi, ct)
			}
			if i.decide(small, "make cap < len") {
				i.throw("makeslice: cap out of range")
			}
			if i.decide(big, "make cap > MaxAlloc") {
				unsupported("make with a symbolic capacity that may exceed MaxAlloc")
			}
			cp = ln
		} else {
			cp = i.mustInt(fr.get(instr.Cap), instr.Cap.Type(), "make cap")
		}
		if ln < 0 || cp < ln {
			i.throw("makeslice: len out of range")
		}
		if cp > i.cfg.MaxAlloc {
			unsupported("make of %d elements exceeds MaxAlloc", cp)
		}
		s := make([]value, cp)
		tElt := instr.Type().Underlying().(*types.Slice).Elem()
		for k := range s {
			s[k] = i.zero(tElt)
		}
		fr.env[instr] = s[:ln]

	case *ssa.MakeMap:
		fr.env[instr] = &amap{kt: instr.Type().Underlying().(*types.Map).Key()}

	case *ssa.Range:
		fr.env[instr] = i.rangeIter(fr.get(instr.X))

	case *ssa.Next:
		fr.env[instr] = fr.get(instr.Iter).(iter).next(i)

	case *ssa.FieldAddr:
		p := fr.get(instr.X).(*value)
		if p == nil {
			i.throw("invalid memory address or nil pointer dereference")
		}
		fr.env[instr] = &(*p).(structure)[instr.Field]

	case *ssa.Field:
		fr.env[instr] = copyVal(fr.get(instr.X).(structure)[instr.Field])

	case *ssa.IndexAddr:
		x := fr.get(instr.X)
		idx := fr.get(instr.Index)
		switch x := x.(type) {
		case []value:
			k := i.indexIn(idx, instr.Index.Type(), len(x), "slice")
			fr.env[instr] = &x[k]
		case *value:
			if x == nil {
				i.throw("invalid memory address or nil pointer dereference")
			}
			a := (*x).(array)
			k := i.indexIn(idx, instr.Index.Type(), len(a), "array")
			fr.env[instr] = &a[k]
		default:
			unsupported("IndexAddr on %T", x)
		}

	case *ssa.Index:
		x := fr.get(instr.X)
		idx := fr.get(instr.Index)
		switch x := x.(type) {
		case array:
			k := i.indexIn(idx, instr.Index.Type(), len(x), "array")
			fr.env[instr] = copyVal(x[k])
		case string:
			it := idx.(*term.T)
			if !it.IsConst() && len(x) > 0 && len(x) <= 256 {
				// symbolic index into a constant string: ite chain
				_, signed, _ := intInfo(instr.Index.Type())
				in := i.ctx.Cmp(term.Ult, it, i.ctx.BV(it.W, uint64(len(x))))
				_ = signed
				if !i.decide(in, "string index in range") {
					i.throw("index out of range (symbolic) with length " + fmt.Sprint(len(x)))
				}
				r := i.ctx.BV(8, uint64(x[len(x)-1]))
				for k := len(x) - 2; k >= 0; k-- {
					r = i.ctx.IteT(i.ctx.EqT(it, i.ctx.BV(it.W, uint64(k))), i.ctx.BV(8, uint64(x[k])), r)
				}
				fr.env[instr] = r
			} else {
				k := i.indexIn(idx, instr.Index.Type(), len(x), "string")
				fr.env[instr] = i.ctx.BV(8, uint64(x[k]))
			}
		case symstr:
			k := i.indexIn(idx, instr.Index.Type(), len(x.b), "string")
			fr.env[instr] = x.b[k]
		default:
			unsupported("Index on %T", x)
		}

	case *ssa.Lookup:
		fr.env[instr] = i.lookup(instr, fr.get(instr.X), fr.get(instr.Index))

	case *ssa.MapUpdate:
		i.mapUpdate(fr.get(instr.Map).(*amap), fr.get(instr.Key), fr.get(instr.Value))

	case *ssa.TypeAssert:
		fr.env[instr] = i.typeAssert(instr, fr.get(instr.X).(iface))

	case *ssa.MakeClosure:
		var bindings []value
		for _, binding := range instr.Bindings {
			bindings = append(bindings, fr.get(binding))
		}
		fr.env[instr] = &closure{instr.Fn.(*ssa.Function), bindings}

	case *ssa.Select:
		unsupported("select in %s", fr.fn)

	default:
		unsupported("instruction %T", instr)
	}
	return kNext
}

func (i *interp) prepareCall(fr *frame, call *ssa.CallCommon) (fn value, args []value) {
	v := fr.get(call.Value)
	if call.Method == nil {
		fn = v
	} else {
		recv := v.(iface)
		if recv.t == nil {
			i.throw("invalid memory address or nil pointer dereference (method call on nil interface)")
		}
		f := i.lookupMethod(recv.t, call.Method)
		if f == nil {
			panic(engineErr{fmt.Sprintf("method set for dynamic type %v does not contain %s", recv.t, call.Method)})
		}
		fn = f
		args = append(args, recv.v)
	}
	for _, arg := range call.Args {
		args = append(args, copyVal(fr.get(arg)))
	}
	return
}

func (i *interp) call(caller *frame, callpos token.Pos, fn value, args []value, instrArgs []ssa.Value) value {
	switch fn := fn.(type) {
	case *ssa.Function:
		if fn == nil {
			i.throw("invalid memory address or nil pointer dereference (call of nil func)")
		}
		return i.callSSA(caller, callpos, fn, args, nil)
	case *closure:
		if fn == nil {
			i.throw("call of nil closure")
		}
		return i.callSSA(caller, callpos, fn.Fn, args, fn.Env)
	case *ssa.Builtin:
		return i.callBuiltin(caller, fn, args, instrArgs)
	case *nativeFn:
		return fn.fn(caller, args)
	}
	panic(engineErr{fmt.Sprintf("cannot call %T", fn)})
}

func isPkgInit(fn *ssa.Function) bool {
	return fn.Name() == "init" && fn.Synthetic == "package initializer"
}

func (i *interp) callSSA(caller *frame, callpos token.Pos, fn *ssa.Function, args []value, env []value) value {
	fr := &frame{i: i, caller: caller, fn: fn}
	if caller != nil {
		fr.cur = caller.cur
	}
	if fn.Parent() == nil {
		// package initialisers of other packages are skipped: they run
		// lazily when one of their globals is first touched.
		if isPkgInit(fn) && caller != nil && caller.fn.Pkg != fn.Pkg {
			return nil
		}
		// generated amino registration (reflection-driven) is never run
		if strings.HasPrefix(fn.Name(), "init#") && strings.HasSuffix(i.prog.Fset.Position(fn.Pos()).Filename, "pb3_gen.go") {
			return nil
		}
		name := fn.String()
		if fn.Origin() != nil {
			name = fn.Origin().String()
		}
		if stub, ok := i.cfg.FuncStubs[name]; ok {
			sf := i.findFunc(stub)
			if sf == nil {
				unsupported("stub function %s for %s not found", stub, name)
			}
			if sf != fn {
				return i.callSSA(caller, callpos, sf, args, nil)
			}
		}
		if ext := i.intrinsic(name, fn); ext != nil {
			i.curFrame = fr
			if caller != nil {
				i.curFrame = caller
			}
			return ext(caller, fn, args)
		}
		if fn.Blocks == nil {
			unsupported("no code for function %s (needs an intrinsic)", name)
		}
	}
	if fn.Parent() == nil && env == nil {
		name := fn.String()
		if fn.Origin() != nil {
			name = fn.Origin().String()
		}
		if i.wantSummary(name, fn, args) {
			return i.summarize(caller, callpos, fn, args)
		}
	}
	return i.callSSABody2(caller, callpos, fn, args, env, fr)
}

// callSSABody runs fn without consulting stubs, intrinsics or summaries.
func (i *interp) callSSABody(caller *frame, callpos token.Pos, fn *ssa.Function, args []value) value {
	fr := &frame{i: i, caller: caller, fn: fn}
	if caller != nil {
		fr.cur = caller.cur
	}
	return i.callSSABody2(caller, callpos, fn, args, nil, fr)
}

func (i *interp) callSSABody2(caller *frame, callpos token.Pos, fn *ssa.Function, args []value, env []value, fr *frame) value {
	if fn.TypeParams().Len() > 0 && len(fn.TypeArgs()) == 0 {
		unsupported("uninstantiated generic %s", fn)
	}
	i.funcs[fn.String()] = true
	if fn.Pkg != nil && !isPkgInit(fn) {
		i.ensureInit(fn.Pkg)
	}
	depth := 0
	for f := caller; f != nil; f = f.caller {
		depth++
	}
	if depth > i.cfg.MaxDepth {
		unsupported("call depth %d exceeded in %s", depth, fn)
	}

	fr.env = make(map[ssa.Value]value)
	fr.block = fn.Blocks[0]
	fr.locals = make([]value, len(fn.Locals))
	for k, l := range fn.Locals {
		fr.locals[k] = i.zero(deref(l.Type()))
		fr.env[l] = &fr.locals[k]
	}
	for k, p := range fn.Params {
		fr.env[p] = args[k]
	}
	for k, fv := range fn.FreeVars {
		fr.env[fv] = env[k]
	}
	i.curFrame = fr
	for fr.block != nil {
		i.runFrame(fr)
	}
	i.curFrame = caller
	return fr.result
}

func (i *interp) runFrame(fr *frame) {
	defer func() {
		if fr.block == nil {
			return // normal return
		}
		r := recover()
		if _, ok := r.(targetPanic); !ok {
			panic(r) // engine error / stopPath: unwind everything
		}
		fr.panicking = true
		fr.panic = r
		i.curFrame = fr
		fr.runDefers()
		// recovered
		fr.block = fr.fn.Recover
		if fr.block == nil {
			// no named results: return zero values
			fr.result = i.zeroResults(fr.fn)
		}
	}()
	for {
		nonPhis := i.executePhis(fr)
		for _, instr := range nonPhis {
			if i.visitInstr(fr, instr) == kReturn {
				return
			}
		}
	}
}

func (i *interp) zeroResults(fn *ssa.Function) value {
	res := fn.Signature.Results()
	switch res.Len() {
	case 0:
		return nil
	case 1:
		return i.zero(res.At(0).Type())
	}
	return i.zero(res)
}

func (i *interp) executePhis(fr *frame) []ssa.Instruction {
	firstNonPhi := -1
	for k, instr := range fr.block.Instrs {
		if _, ok := instr.(*ssa.Phi); !ok {
			firstNonPhi = k
			break
		}
	}
	nonPhis := fr.block.Instrs[firstNonPhi:]
	if firstNonPhi > 0 {
		phis := fr.block.Instrs[:firstNonPhi]
		predIndex := slices.Index(fr.block.Preds, fr.prevBlock)
		fr.phitemps = fr.phitemps[:0]
		for _, phi := range phis {
			fr.phitemps = append(fr.phitemps, fr.get(phi.(*ssa.Phi).Edges[predIndex]))
		}
		for k, phi := range phis {
			fr.env[phi.(*ssa.Phi)] = fr.phitemps[k]
		}
		if fr.phiOverride != nil {
			for phi, v := range fr.phiOverride {
				fr.env[phi] = v
			}
			fr.phiOverride = nil
		}
	}
	return nonPhis
}

func (i *interp) doRecover(caller *frame) value {
	if caller != nil && !caller.panicking && caller.caller != nil && caller.caller.panicking {
		caller.caller.panicking = false
		p := caller.caller.panic
		caller.caller.panic = nil
		if tp, ok := p.(targetPanic); ok {
			if tp.v == nil {
				return iface{}
			}
			if iv, ok := tp.v.(iface); ok {
				return iv
			}
			return iface{t: types.Typ[types.String], v: tp.v}
		}
		panic(engineErr{fmt.Sprintf("recover of %T", p)})
	}
	return iface{}
}

// describePanic renders a target panic value for reports.
func (i *interp) describePanic(p targetPanic) string {
	s := toString(p.v)
	if iv, ok := p.v.(iface); ok {
		if str, ok := iv.v.(string); ok {
			s = str
		} else if iv.t != nil {
			s = iv.t.String() + " " + toString(iv.v)
		}
	}
	if len(s) > 200 {
		s = s[:200]
	}
	return strings.ReplaceAll(s, "\n", " ")
}
