package sx

import (
	"fmt"
	"math/big"
	"os"
	"sort"
	"strings"

	"verif/engine/solver"
	"verif/engine/term"
)

// Config holds the bounds and modelling choices of one check.
type Config struct {
	MaxSteps     int64    // instruction budget per path
	MaxDepth     int      // call depth
	MaxIndexFork int      // largest slice/array length a symbolic index may fork over
	MaxAlloc     int64    // largest make()
	MaxPaths     int      // path budget per harness
	NoInit       []string // package path prefixes whose initialisers are never run
	ForceInit    []string // package paths whose initialisers run although a default no-init prefix covers them
	Mode         term.Mode
	Solver       string
	Solver2      string // optional cross-check solver for assertion queries
	SolverAlt    string // one-shot modes: asked when the primary solver answers unknown
	TimeoutMs    int
	Workers      int
	WallS        int // wall budget per harness
	SampleModels int // number of completed paths per harness for which an input vector is extracted
	Summarize    []string
	FuncStubs    map[string]string // function (full name) -> harness function of the same signature that replaces it
	LoopBound    int // merge-mode unrolling bound
	Verbose      bool
	OneShot      bool // decide assertion queries in a fresh solver process (full tactic pipeline)
	OneShotAll   bool // decide every query (branches too) in a fresh solver process
	XorNF        bool // keep GF(2)-linear bit-vector terms in xor normal form (term/xornf.go)
	IfConv       bool // merge side-effect-free if/else diamonds into ite terms instead of forking (zifconv.go)
	NoModelGuide bool // disable model-guided branching (see zmodel.go)
	Thorough     bool
	Concrete     map[string]string // when set: nondet values are taken from here (concrete run)
}

var defaultNoInit = []string{
	"os", "syscall", "runtime", "time", "fmt", "reflect", "log", "net", "crypto/", "internal/", "io/", "bufio", "path",
	"regexp", "encoding/json", "encoding/base64", "encoding/hex", "testing", "flag", "sync", "context", "text/",
	"compress/", "hash/", "golang.org/x/", "github.com/gnolang/gno/tm2/pkg/amino", "github.com/gnolang/gno/tm2/pkg/telemetry",
	"github.com/gnolang/gno/tm2/pkg/log", "go.opentelemetry.io", "google.golang.org", "github.com/rs/", "go.uber.org",
	"math/rand", "unicode", "strconv", "errors", "database/", "html", "mime", "embed", "iter", "weak", "unique", "vendor/",
	"github.com/btcsuite", "github.com/cosmos", "github.com/davecgh", "github.com/stretchr", "github.com/pmezard", "gopkg.in",
	"github.com/gnolang/gno/tm2/pkg/crypto/ed25519", "github.com/gnolang/gno/tm2/pkg/crypto/secp256k1", "math/big",
	"github.com/gnolang/gno/tm2/pkg/errors",
}

func (c *Config) noInit(path string) bool {
	for _, p := range c.ForceInit {
		if path == p {
			return false
		}
	}
	for _, p := range c.NoInit {
		if path == p || strings.HasPrefix(path, p) && (strings.HasSuffix(p, "/") || strings.HasPrefix(path, p+"/")) {
			return true
		}
	}
	for _, p := range defaultNoInit {
		if path == p || strings.HasPrefix(path, p) && (strings.HasSuffix(p, "/") || strings.HasPrefix(path, p+"/")) {
			return true
		}
	}
	return false
}

func (c *Config) fill() {
	if c.MaxSteps == 0 {
		c.MaxSteps = 2_000_000
	}
	if c.MaxDepth == 0 {
		c.MaxDepth = 200
	}
	if c.MaxIndexFork == 0 {
		c.MaxIndexFork = 16
	}
	if c.MaxAlloc == 0 {
		c.MaxAlloc = 1 << 16
	}
	if c.MaxPaths == 0 {
		c.MaxPaths = 20000
	}
	if c.Solver == "" {
		c.Solver = "z3-new"
	}
	if c.TimeoutMs == 0 {
		c.TimeoutMs = 30000
	}
	if c.Workers == 0 {
		c.Workers = 8
	}
	if c.WallS == 0 {
		c.WallS = 600
	}
	if c.SampleModels == 0 {
		c.SampleModels = 6
	}
	if c.LoopBound == 0 {
		c.LoopBound = 70
	}
}

// ---- solver session (one per worker)

type session struct {
	s      *solver.Solver
	pr     *term.Printer
	script strings.Builder // everything sent since the path began (for cross-checks)
	ufs    []*term.T
	vars   []*term.T
	seenUF map[string]bool
	nCheck int
	fresh  func(script string) solver.Result // when set, every query runs in a fresh process
	live   bool                              // the last check answered sat and its model can still be read
}

func newSession(kind string, mode term.Mode, timeoutMs int) (*session, error) {
	s, err := solver.Start(kind, timeoutMs)
	if err != nil {
		return nil, err
	}
	return &session{s: s, pr: term.NewPrinter(mode), seenUF: map[string]bool{}}, nil
}

func (ss *session) begin() {
	ss.pr.Reset()
	ss.script.Reset()
	ss.ufs = nil
	ss.vars = nil
	ss.seenUF = map[string]bool{}
	ss.s.Push()
}

func (ss *session) end() { ss.s.Pop() }

func (ss *session) send(txt string) {
	ss.script.WriteString(txt)
	ss.s.Send(txt)
}

// define emits whatever t needs and returns its reference.
func (ss *session) define(t *term.T) string {
	var sb strings.Builder
	var newUF []*term.T
	// UF declarations must precede their use: collect first
	ss.declareUFs(t, &sb)
	ss.pr.Emit(&sb, t, &newUF)
	if sb.Len() > 0 {
		ss.send(sb.String())
	}
	for _, u := range newUF {
		ss.addUFAxioms(u)
	}
	return ss.pr.Ref(t)
}

func (ss *session) declareUFs(t *term.T, sb *strings.Builder) {
	seen := map[int]bool{}
	var f func(*term.T)
	f = func(t *term.T) {
		if seen[t.ID] {
			return
		}
		seen[t.ID] = true
		for _, a := range t.A {
			f(a)
		}
		if t.Op == term.UF && !ss.seenUF[t.Name] {
			ss.seenUF[t.Name] = true
			sb.WriteString(ss.pr.UFDecl(t))
		}
		if t.Op == term.Var {
			found := false
			for _, v := range ss.vars {
				if v == t {
					found = true
					break
				}
			}
			if !found {
				ss.vars = append(ss.vars, t)
			}
		}
	}
	f(t)
}

// addUFAxioms instantiates injectivity for functions named "inj:<family>:..."
// against the applications already present in the session: equal results imply
// equal arguments; applications of different members of a family differ.
func (ss *session) addUFAxioms(u *term.T) {
	if strings.HasPrefix(u.Name, "inj:") {
		fam := strings.SplitN(u.Name, ":", 3)[1]
		var sb strings.Builder
		if fam == "sha256" && ss.pr.Mode != term.ModeInt {
			// no input hashes to the all-zero string (used as a sentinel by the
			// B+ tree): part of the stated hash assumption
			fmt.Fprintf(&sb, "(assert (not (= %s (_ bv0 256))))\n", ss.pr.Ref(u))
		}
		for _, o := range ss.ufs {
			if !strings.HasPrefix(o.Name, "inj:"+fam+":") {
				continue
			}
			if o.Name == u.Name && len(o.A) == len(u.A) {
				var eqs []string
				for k := range o.A {
					if o.A[k] != u.A[k] {
						eqs = append(eqs, "(= "+ss.pr.Ref(o.A[k])+" "+ss.pr.Ref(u.A[k])+")")
					}
				}
				if len(eqs) == 0 {
					continue
				}
				conj := eqs[0]
				if len(eqs) > 1 {
					conj = "(and " + strings.Join(eqs, " ") + ")"
				}
				fmt.Fprintf(&sb, "(assert (=> (= %s %s) %s))\n", ss.pr.Ref(o), ss.pr.Ref(u), conj)
			} else {
				fmt.Fprintf(&sb, "(assert (not (= %s %s)))\n", ss.pr.Ref(o), ss.pr.Ref(u))
			}
		}
		if sb.Len() > 0 {
			ss.send(sb.String())
		}
	}
	ss.ufs = append(ss.ufs, u)
}

func (ss *session) assert(t *term.T) {
	if t.IsTrue() {
		return
	}
	ref := ss.define(t)
	ss.send("(assert " + ref + ")\n")
}

// check asks whether the path condition together with t is satisfiable.
func (ss *session) check(t *term.T) solver.Result {
	ss.nCheck++
	ss.live = false
	if t == nil || t.IsTrue() {
		if ss.fresh != nil {
			ss.s.Queries++
			return ss.fresh(ss.script.String() + "(check-sat)\n")
		}
		return ss.s.Check("")
	}
	if t.IsFalse() {
		return solver.Unsat
	}
	ref := ss.define(t)
	if ss.pr.Err != nil {
		return solver.Unknown
	}
	if d := os.Getenv("VERIF_DUMP"); d != "" {
		os.MkdirAll(d, 0o755)
		os.WriteFile(fmt.Sprintf("%s/q%d_%d.smt2", d, os.Getpid(), ss.nCheck), []byte(ss.script.String()+"(assert "+ref+")\n(check-sat)\n"), 0o644)
	}
	if ss.fresh != nil {
		ss.s.Queries++
		return ss.fresh(ss.script.String() + "(assert " + ref + ")\n(check-sat)\n")
	}
	if t.Op == term.Var || strings.HasPrefix(ref, "t") {
		r := ss.s.Check(ref)
		ss.live = r == solver.Sat
		return r
	}
	ss.s.Push()
	ss.s.Send("(assert " + ref + ")\n")
	r := ss.s.Check("")
	ss.s.Pop()
	return r
}

func (ss *session) model() (map[string]*big.Int, error) {
	if len(ss.vars) == 0 {
		return map[string]*big.Int{}, nil
	}
	names := make([]string, len(ss.vars))
	for k, v := range ss.vars {
		names[k] = ss.pr.Ref(v)
	}
	vals, err := ss.s.Values(names)
	if err != nil {
		return nil, err
	}
	res := map[string]*big.Int{}
	for k, v := range ss.vars {
		if x, ok := vals[names[k]]; ok {
			res[v.Name] = x
		}
	}
	return res, nil
}

// ---- per-path state

type nondetRec struct {
	Name string
	W    int
	T    *term.T
	Kind string // int8.. / bool / choose
	Val  *big.Int
}

// Violation is an assertion that can fail (sat) on some path.
type Violation struct {
	Harness string
	Label   string
	Where   string
	Vector  map[string]string
	Path    []int
	Panic   string
	Shape   string // the structural choices (verifChoose) of the path
}

func (p *pathState) shape() string {
	var sb strings.Builder
	for _, n := range p.nondets {
		if n.Kind == "choose" {
			sb.WriteString(n.Name + "=" + n.Val.String() + ";")
		}
	}
	return sb.String()
}

type Inconclusive struct {
	Harness string
	What    string
}

type pathState struct {
	eng     *Engine
	h       *harnessRun
	prefix  []int
	trace   []int
	pc      []*term.T
	sess    *session
	nondets []*nondetRec
	names   map[string]int
	reach   []string
	asserts []string // labels checked on this path in order
	nForks  int
	dead    bool

	// local exploration of a summarised function (see summarize): branch
	// conditions are collected in localCond instead of being asserted, and
	// alternatives go to altSink instead of the harness work list
	local     bool
	localCond *term.T
	altSink   *[][]int
	ctx       *term.Ctx

	model *pathModel // last satisfying assignment of the path condition (nil: none kept)
	interp *interp
}

func (i *interp) decide(cond *term.T, what string) bool {
	if i.cfg.XorNF {
		cond = i.ctx.GaussEq(cond)
	}
	if cond.IsTrue() {
		return true
	}
	if cond.IsFalse() {
		return false
	}
	if i.spec > 0 {
		panic(specAbort{})
	}
	p := i.path
	c := i.ctx
	pos := len(p.trace)
	if pos < len(p.prefix) {
		d := p.prefix[pos]
		p.trace = append(p.trace, d)
		if d == 1 {
			p.addPC(cond)
			return true
		}
		p.addPC(c.NotB(cond))
		return false
	}
	p.h.noteDecision()
	var r1, r2 solver.Result
	qcheck := func(x *term.T) solver.Result {
		if p.local && !p.localCond.IsTrue() {
			return p.sess.check(c.AndB(p.localCond, x))
		}
		return p.sess.check(x)
	}
	if v, known := i.modelSays(cond); known {
		// one side is witnessed by the kept assignment: query only the other
		if v {
			if qcheck(c.NotB(cond)) == solver.Unsat {
				p.trace = append(p.trace, 1)
				p.addPC(cond)
				return true
			}
		} else {
			r := qcheck(cond)
			if r == solver.Unsat {
				p.trace = append(p.trace, 0)
				p.addPC(c.NotB(cond))
				return false
			}
			// both sides feasible and this path takes the true side, which the
			// kept assignment does not satisfy: take the fresh one if readable
			p.model = nil
			if r == solver.Sat && p.sess.live && !p.local {
				i.fetchModel()
			}
		}
		alt := append(append([]int(nil), p.trace...), 0)
		if p.local {
			*p.altSink = append(*p.altSink, alt)
		} else {
			p.h.push(alt)
		}
		p.trace = append(p.trace, 1)
		p.addPC(cond)
		return true
	}
	if p.local && !p.localCond.IsTrue() {
		r1 = p.sess.check(c.AndB(p.localCond, cond))
	} else {
		r1 = p.sess.check(cond)
	}
	if r1 == solver.Unsat {
		p.trace = append(p.trace, 0)
		p.addPC(c.NotB(cond))
		return false
	}
	if r1 == solver.Sat && p.sess.live && p.model == nil {
		i.fetchModel() // satisfies the path condition and cond: valid on the true side taken below
	}
	if p.local && !p.localCond.IsTrue() {
		r2 = p.sess.check(c.AndB(p.localCond, c.NotB(cond)))
	} else {
		r2 = p.sess.check(c.NotB(cond))
	}
	if r2 == solver.Unsat {
		p.trace = append(p.trace, 1)
		p.addPC(cond)
		return true
	}
	if r1 == solver.Unknown || r2 == solver.Unknown {
		p.h.noteUnknownBranch(i.where() + ": " + what)
	}
	// both sides (possibly) feasible: fork
	alt := append(append([]int(nil), p.trace...), 0)
	if p.local {
		*p.altSink = append(*p.altSink, alt)
	} else {
		p.h.push(alt)
	}
	p.trace = append(p.trace, 1)
	p.addPC(cond)
	return true
}

func (p *pathState) addPC(t *term.T) {
	if p.model != nil && p.interp != nil {
		if r := p.interp.evalUnder(p.model, t); r == nil || !r.IsTrue() {
			p.model = nil // the kept assignment does not (provably) satisfy the new constraint
		}
	}
	if p.local {
		p.localCond = p.ctx.AndB(p.localCond, t)
		return
	}
	p.pc = append(p.pc, t)
	p.sess.assert(t)
}

// choose is a structural n-way fork that needs no solver.
func (i *interp) choose(n int) int {
	p := i.path
	if p.local {
		unsupported("verifChoose inside a summarised function")
	}
	pos := len(p.trace)
	if pos < len(p.prefix) {
		d := p.prefix[pos]
		p.trace = append(p.trace, d)
		return d
	}
	for k := n - 1; k >= 1; k-- {
		alt := append(append([]int(nil), p.trace...), k)
		p.h.push(alt)
	}
	p.trace = append(p.trace, 0)
	return 0
}

func (p *pathState) uniqueName(name string) string {
	p.names[name]++
	if n := p.names[name]; n > 1 {
		return fmt.Sprintf("%s#%d", name, n)
	}
	return name
}

func (i *interp) nondet(name string, w int, kind string) *term.T {
	p := i.path
	name = p.uniqueName(name)
	if i.cfg.Concrete != nil {
		v := new(big.Int)
		if s, ok := i.cfg.Concrete[name]; ok {
			v.SetString(s, 10)
		}
		var t *term.T
		if w == 0 {
			t = i.ctx.Bool(v.Sign() != 0)
		} else {
			t = i.ctx.BVBig(w, v)
		}
		p.nondets = append(p.nondets, &nondetRec{Name: name, W: w, T: t, Kind: kind})
		return t
	}
	i.ctx.Hint = strings.HasPrefix(kind, "int")
	t := i.ctx.NewVar(name, w)
	p.nondets = append(p.nondets, &nondetRec{Name: name, W: w, T: t, Kind: kind})
	return t
}

// vector turns a model into the replay vector (decimal strings; signed kinds
// are rendered as signed numbers).
func (p *pathState) vector(m map[string]*big.Int) map[string]string {
	vec := map[string]string{}
	for _, n := range p.nondets {
		if n.Kind == "choose" {
			vec[n.Name] = n.Val.String()
			continue
		}
		v, ok := m[n.Name]
		if !ok {
			v = new(big.Int)
			if n.T.IsConst() {
				v = n.T.ConstBig()
			}
		}
		v = new(big.Int).Set(v)
		if n.W > 0 && v.Sign() < 0 && !strings.HasPrefix(n.Kind, "int") {
			v.Add(v, new(big.Int).Lsh(big.NewInt(1), uint(n.W)))
		}
		if strings.HasPrefix(n.Kind, "int") && n.W > 0 && v.Sign() >= 0 && v.Bit(n.W-1) == 1 {
			v.Sub(v, new(big.Int).Lsh(big.NewInt(1), uint(n.W)))
		}
		vec[n.Name] = v.String()
	}
	return vec
}

func (i *interp) currentModel() (map[string]string, bool) {
	p := i.path
	if i.cfg.Concrete != nil {
		return i.cfg.Concrete, true
	}
	if i.cfg.OneShotAll {
		r, m := p.h.eng.oneShot(p.sess, i.ctx.True(), i.cfg)
		if r != solver.Sat || m == nil {
			return nil, false
		}
		return p.vector(m), true
	}
	if r := p.sess.check(nil); r != solver.Sat {
		return nil, false
	}
	m, err := p.sess.model()
	if err != nil {
		return nil, false
	}
	return p.vector(m), true
}

func (i *interp) verifAssert(cond *term.T, label string) {
	p := i.path
	c := i.ctx
	p.asserts = append(p.asserts, label)
	p.h.noteObligation()
	if cond.IsTrue() {
		p.h.noteDischarged(true)
		return
	}
	neg := c.NotB(cond)
	var r solver.Result
	var oneShotModel map[string]*big.Int
	if i.cfg.OneShot && !neg.IsTrue() && i.cfg.Concrete == nil {
		r, oneShotModel = p.h.eng.oneShot(p.sess, neg, i.cfg)
	} else if neg.IsTrue() {
		r = p.sess.check(nil)
	} else {
		r = p.sess.check(neg)
	}
	switch r {
	case solver.Unsat:
		if i.cfg.Solver2 != "" && !neg.IsTrue() {
			if r2 := p.h.eng.crossCheck(p.sess, neg, i.cfg); r2 != solver.Unsat {
				p.h.noteInconclusive(fmt.Sprintf("assert %q: %s says unsat, %s says %s", label, i.cfg.Solver, i.cfg.Solver2, r2))
				break
			}
		}
		p.h.noteDischarged(false)
	case solver.Sat:
		var vec map[string]string
		if oneShotModel != nil {
			vec = p.vector(oneShotModel)
		} else if neg.IsTrue() {
			m, err := p.sess.model()
			if err == nil {
				vec = p.vector(m)
			}
		} else {
			// model of pc ∧ ¬cond: re-check under push to read values
			p.sess.s.Push()
			p.sess.s.Send("(assert " + p.sess.pr.Ref(neg) + ")\n")
			if p.sess.s.Check("") == solver.Sat {
				if m, err := p.sess.model(); err == nil {
					vec = p.vector(m)
				}
			}
			p.sess.s.Pop()
		}
		if vec == nil {
			p.h.noteInconclusive(fmt.Sprintf("assert %q: sat but no model", label))
		} else {
			p.h.noteViolation(&Violation{Harness: p.h.name, Label: label, Where: i.where(), Vector: vec, Path: append([]int(nil), p.trace...), Shape: p.shape()})
		}
	default:
		msg := fmt.Sprintf("assert %q: solver answered unknown at %s", label, i.where())
		if p.sess.pr.Err != nil {
			msg += " (" + p.sess.pr.Err.Error() + ")"
		}
		if n := len(p.sess.s.Errors); n > 0 {
			msg += " " + p.sess.s.Errors[n-1]
		}
		p.h.noteInconclusive(msg)
	}
	if cond.IsFalse() {
		panic(stopPath{"assertion false on whole path"})
	}
	if r != solver.Unsat {
		// continue only where the assertion holds
		if p.sess.check(cond) == solver.Unsat {
			panic(stopPath{"assertion fails on whole path"})
		}
	}
	p.addPC(cond)
}

func (i *interp) verifAssume(cond *term.T) {
	p := i.path
	if cond.IsTrue() {
		return
	}
	if cond.IsFalse() {
		panic(stopPath{"assume false"})
	}
	if i.cfg.Concrete == nil {
		if r := p.sess.check(cond); r == solver.Unsat {
			panic(stopPath{"assume unsatisfiable"})
		} else if r == solver.Unknown {
			p.h.noteUnknownBranch(i.where() + ": assume")
		}
	}
	p.addPC(cond)
}

func sortedKeys(m map[string]bool) []string {
	r := make([]string, 0, len(m))
	for k := range m {
		r = append(r, k)
	}
	sort.Strings(r)
	return r
}
