package sx

import (
	"os"
	"fmt"
	"go/constant"
	"go/token"
	"go/types"
	"math"
	"unicode/utf8"

	"golang.org/x/tools/go/ssa"

	"verif/engine/term"
)

func (i *interp) runtimeErr(msg string) value {
	return iface{t: i.runtimeErrorType(), v: "runtime error: " + msg}
}

func (i *interp) throw(msg string) {
	if os.Getenv("VERIF_DEBUG_THROW") != "" {
		fmt.Fprintf(os.Stderr, "THROW %s at %s stack: %s\n", msg, i.where(), i.stack())
	}
	panic(targetPanic{v: i.runtimeErr(msg), where: i.where()})
}

func (i *interp) constValue(c *ssa.Const) value {
	if c.Value == nil {
		return i.zero(c.Type())
	}
	if t, ok := c.Type().Underlying().(*types.Basic); ok {
		if w, signed, ok := intInfo(t); ok {
			if w == 0 {
				return i.ctx.Bool(constant.BoolVal(c.Value))
			}
			if signed {
				return i.ctx.BV(w, uint64(c.Int64()))
			}
			return i.ctx.BV(w, c.Uint64())
		}
		switch t.Kind() {
		case types.Float32:
			return float32(c.Float64())
		case types.Float64, types.UntypedFloat:
			return c.Float64()
		case types.Complex64:
			return complex64(c.Complex128())
		case types.Complex128, types.UntypedComplex:
			return c.Complex128()
		case types.String, types.UntypedString:
			if c.Value.Kind() == constant.String {
				return constant.StringVal(c.Value)
			}
			return string(rune(c.Int64()))
		}
	}
	panic(engineErr{fmt.Sprintf("constValue: %s", c)})
}

// concrete integer helpers

func constInt(v value) (int64, bool) {
	t, ok := v.(*term.T)
	if !ok || !t.IsConst() || t.W <= 0 || t.W > 64 {
		return 0, false
	}
	return int64(t.K), true
}

// asInt returns a concrete Go int for an int-typed term, concretizing by
// forking when symbolic (each value in [lo,hi] is a branch).
func (i *interp) asIntSigned(v value, signed bool) (int64, bool) {
	t := v.(*term.T)
	if t.IsConst() {
		if signed {
			return term.SignExt64(t.K, t.W), true
		}
		if t.K > math.MaxInt64 {
			return math.MaxInt64, true
		}
		return int64(t.K), true
	}
	return 0, false
}

func (i *interp) mustInt(v value, t types.Type, what string) int64 {
	_, signed, _ := intInfo(t)
	n, ok := i.asIntSigned(v, signed)
	if !ok {
		unsupported("symbolic %s", what)
	}
	return n
}

// splitInt makes an integer concrete: a constant is returned as is; a
// symbolic value is case-split over 0..maxK (a fork per feasible value); a
// value outside that range is represented by maxK+1 (callers treat it as out
// of range).
func (i *interp) splitInt(v value, t types.Type, maxK int, what string) int64 {
	x, isT := v.(*term.T)
	if !isT || x.IsConst() {
		return i.mustInt(v, t, what)
	}
	if maxK > i.cfg.MaxIndexFork {
		unsupported("symbolic %s over a range of %d", what, maxK)
	}
	for k := 0; k <= maxK; k++ {
		if i.decide(i.ctx.EqT(x, i.ctx.BV(x.W, uint64(k))), what+" == k") {
			return int64(k)
		}
	}
	return int64(maxK) + 1
}

// indexIn resolves an index term against a concrete length n: it forks on
// the bounds check and then on each concrete index value.
func (i *interp) indexIn(idx value, t types.Type, n int, what string) int {
	_, signed, _ := intInfo(t)
	x := idx.(*term.T)
	if x.IsConst() {
		var k int64
		if signed {
			k = term.SignExt64(x.K, x.W)
		} else if x.K > math.MaxInt64 {
			k = -1
		} else {
			k = int64(x.K)
		}
		if k < 0 || k >= int64(n) {
			i.throw(fmt.Sprintf("index out of range [%d] with length %d", k, n))
		}
		return int(k)
	}
	c := i.ctx
	inRange := c.Cmp(term.Ult, x, c.BV(x.W, uint64(n))) // as unsigned: negatives are huge
	if x.W < 64 && uint64(n) > (uint64(1)<<uint(x.W))-1 {
		if signed {
			inRange = c.Cmp(term.Sle, c.BV(x.W, 0), x)
		} else {
			inRange = c.True()
		}
	}
	if !i.decide(inRange, "index in range ("+what+")") {
		i.throw("index out of range (symbolic) with length " + fmt.Sprint(n))
	}
	if n > i.cfg.MaxIndexFork {
		unsupported("symbolic index into %s of length %d (> MaxIndexFork)", what, n)
	}
	for k := 0; k < n-1; k++ {
		if i.decide(c.EqT(x, c.BV(x.W, uint64(k))), "index value") {
			return k
		}
	}
	return n - 1
}

func (i *interp) cmpInt(op token.Token, signed bool, x, y *term.T) *term.T {
	c := i.ctx
	lt, le := term.Ult, term.Ule
	if signed {
		lt, le = term.Slt, term.Sle
	}
	switch op {
	case token.EQL:
		return c.EqT(x, y)
	case token.NEQ:
		return c.NotB(c.EqT(x, y))
	case token.LSS:
		return c.Cmp(lt, x, y)
	case token.LEQ:
		return c.Cmp(le, x, y)
	case token.GTR:
		return c.Cmp(lt, y, x)
	case token.GEQ:
		return c.Cmp(le, y, x)
	}
	panic(engineErr{"cmpInt " + op.String()})
}

// shiftAmount converts a shift count of any integer type to width w,
// saturating counts >= w; panics (target) on negative signed counts.
func (i *interp) shiftAmount(y *term.T, yt types.Type, w int) *term.T {
	c := i.ctx
	_, ysigned, _ := intInfo(yt)
	if ysigned {
		neg := c.Cmp(term.Slt, y, c.BV(y.W, 0))
		if i.decide(neg, "negative shift amount") {
			i.throw("negative shift amount")
		}
	}
	if y.W == w {
		return y
	}
	if y.W < w {
		return c.ZExtT(y, w)
	}
	big := c.Cmp(term.Ule, c.BV(y.W, uint64(w)), y)
	return c.IteT(big, c.BV(w, uint64(w)), c.ExtractT(y, w-1, 0))
}

func (i *interp) binop(op token.Token, t, yt types.Type, x, y value) value {
	c := i.ctx
	switch op {
	case token.EQL, token.NEQ:
		var r *term.T
		if xn, yn := isNilValue(x), isNilValue(y); (xn || yn) && !isIfaceOrPtr(x) {
			// slice/map/func compared with nil
			r = c.Bool(xn && yn)
		} else {
			r = i.equalsT(t, x, y)
		}
		if op == token.NEQ {
			r = c.NotB(r)
		}
		return r
	}
	if w, signed, ok := intInfo(t); ok {
		xt := x.(*term.T)
		c.Hint = signed
		if w == 0 {
			yt := y.(*term.T)
			switch op {
			case token.AND, token.LAND:
				return c.AndB(xt, yt)
			case token.OR, token.LOR:
				return c.OrB(xt, yt)
			}
			unsupported("bool binop %s", op)
		}
		switch op {
		case token.SHL, token.SHR:
			amt := i.shiftAmount(y.(*term.T), yt, w)
			if op == token.SHL {
				return c.Bin(term.Shl, xt, amt)
			}
			if signed {
				return c.Bin(term.AShr, xt, amt)
			}
			return c.Bin(term.LShr, xt, amt)
		}
		yv := y.(*term.T)
		switch op {
		case token.ADD:
			return c.Bin(term.Add, xt, yv)
		case token.SUB:
			return c.Bin(term.Sub, xt, yv)
		case token.MUL:
			return c.Bin(term.Mul, xt, yv)
		case token.AND:
			return c.Bin(term.And, xt, yv)
		case token.OR:
			return c.Bin(term.Or, xt, yv)
		case token.XOR:
			return c.Bin(term.Xor, xt, yv)
		case token.AND_NOT:
			return c.Bin(term.And, xt, c.NotBV(yv))
		case token.QUO, token.REM:
			if i.decide(c.EqT(yv, c.BV(w, 0)), "divisor is zero") {
				i.throw("integer divide by zero")
			}
			switch {
			case op == token.QUO && signed:
				return c.Bin(term.SDiv, xt, yv)
			case op == token.QUO:
				return c.Bin(term.UDiv, xt, yv)
			case signed:
				return c.Bin(term.SRem, xt, yv)
			default:
				return c.Bin(term.URem, xt, yv)
			}
		case token.LSS, token.LEQ, token.GTR, token.GEQ:
			return i.cmpInt(op, signed, xt, yv)
		}
		unsupported("integer binop %s", op)
	}
	if isString(t) {
		switch op {
		case token.ADD:
			if xs, ok := x.(string); ok {
				if ys, ok := y.(string); ok {
					return xs + ys
				}
			}
			return mkStr(append(append([]*term.T(nil), i.strBytes(x)...), i.strBytes(y)...))
		case token.LSS, token.LEQ, token.GTR, token.GEQ:
			return i.strCompareOp(op, x, y)
		}
	}
	switch x := x.(type) {
	case float64:
		y := y.(float64)
		switch op {
		case token.ADD:
			return x + y
		case token.SUB:
			return x - y
		case token.MUL:
			return x * y
		case token.QUO:
			return x / y
		case token.LSS:
			return c.Bool(x < y)
		case token.LEQ:
			return c.Bool(x <= y)
		case token.GTR:
			return c.Bool(x > y)
		case token.GEQ:
			return c.Bool(x >= y)
		}
	case float32:
		y := y.(float32)
		switch op {
		case token.ADD:
			return x + y
		case token.SUB:
			return x - y
		case token.MUL:
			return x * y
		case token.QUO:
			return x / y
		case token.LSS:
			return c.Bool(x < y)
		case token.LEQ:
			return c.Bool(x <= y)
		case token.GTR:
			return c.Bool(x > y)
		case token.GEQ:
			return c.Bool(x >= y)
		}
	}
	unsupported("binop %s on %T (%s)", op, x, t)
	return nil
}

func isIfaceOrPtr(v value) bool {
	switch v.(type) {
	case iface, *value, unsafePtr, viewPtr, *chanv:
		return true
	}
	return false
}

// strCmpTerms returns (lt, eq) Bool terms for lexicographic comparison.
func (i *interp) strCmpTerms(x, y value) (lt, eq *term.T) {
	c := i.ctx
	a, b := i.strBytes(x), i.strBytes(y)
	n := min(len(a), len(b))
	// process from the end
	if len(a) < len(b) {
		lt, eq = c.True(), c.False()
	} else if len(a) == len(b) {
		lt, eq = c.False(), c.True()
	} else {
		lt, eq = c.False(), c.False()
	}
	for k := n - 1; k >= 0; k-- {
		bl := c.Cmp(term.Ult, a[k], b[k])
		be := c.EqT(a[k], b[k])
		lt = c.OrB(bl, c.AndB(be, lt))
		eq = c.AndB(be, eq)
	}
	return
}

func (i *interp) strCompareOp(op token.Token, x, y value) *term.T {
	c := i.ctx
	lt, eq := i.strCmpTerms(x, y)
	switch op {
	case token.LSS:
		return lt
	case token.LEQ:
		return c.OrB(lt, eq)
	case token.GTR:
		return c.NotB(c.OrB(lt, eq))
	case token.GEQ:
		return c.NotB(lt)
	}
	panic(engineErr{"strCompareOp"})
}

func (i *interp) unop(instr *ssa.UnOp, x value) value {
	c := i.ctx
	switch instr.Op {
	case token.ARROW:
		ch := x.(*chanv)
		if ch == nil || len(ch.buf) == 0 {
			unsupported("receive from empty/nil channel (would block)")
		}
		v := ch.buf[0]
		ch.buf = ch.buf[1:]
		if instr.CommaOk {
			return tuple{v, c.True()}
		}
		return v
	case token.SUB:
		switch x := x.(type) {
		case *term.T:
			_, c.Hint, _ = intInfo(instr.Type())
			return c.NegBV(x)
		case float32:
			return -x
		case float64:
			return -x
		}
	case token.MUL:
		return i.loadPtr(deref(instr.X.Type()), x)
	case token.NOT:
		return c.NotB(x.(*term.T))
	case token.XOR:
		_, c.Hint, _ = intInfo(instr.Type())
		return c.NotBV(x.(*term.T))
	}
	unsupported("unop %s on %T", instr.Op, x)
	return nil
}

func (i *interp) loadPtr(T types.Type, p value) value {
	switch p := p.(type) {
	case *value:
		if p == nil {
			i.throw("invalid memory address or nil pointer dereference")
		}
		return load(T, p)
	case viewPtr:
		return i.viewLoad(p)
	}
	unsupported("load through %T", p)
	return nil
}

func (i *interp) storePtr(T types.Type, p value, v value) {
	switch p := p.(type) {
	case *value:
		if p == nil {
			i.throw("invalid memory address or nil pointer dereference")
		}
		store(T, p, v)
		return
	case viewPtr:
		i.viewStore(p, v)
		return
	}
	unsupported("store through %T", p)
}

func (i *interp) viewLoad(p viewPtr) value {
	a := (*p.p).(array)
	w, _, ok := intInfo(p.t)
	if !ok || w == 0 || w/8 > len(a) {
		unsupported("unsafe view of type %s over %d bytes", p.t, len(a))
	}
	r := a[0].(*term.T)
	for k := 1; k < w/8; k++ {
		r = i.ctx.ConcatT(a[k].(*term.T), r)
	}
	return r
}

func (i *interp) viewStore(p viewPtr, v value) {
	a := (*p.p).(array)
	w, _, ok := intInfo(p.t)
	if !ok || w == 0 || w/8 > len(a) {
		unsupported("unsafe view of type %s over %d bytes", p.t, len(a))
	}
	t := v.(*term.T)
	for k := 0; k < w/8; k++ {
		a[k] = i.ctx.ExtractT(t, 8*k+7, 8*k)
	}
}

// slice returns x[lo:hi:max].
func (i *interp) slice(instr *ssa.Slice, x, lo, hi, max value) value {
	var Len, Cap int
	switch x := x.(type) {
	case string, symstr:
		Len = strLen(x)
		Cap = Len
	case []value:
		Len = len(x)
		Cap = cap(x)
	case *value:
		if x == nil {
			i.throw("slice of nil array pointer")
		}
		a := (*x).(array)
		Len = len(a)
		Cap = len(a)
	default:
		unsupported("slice of %T", x)
	}
	l, h, m := int64(0), int64(Len), int64(Cap)
	if lo != nil {
		l = i.splitInt(lo, instr.Low.Type(), Cap, "slice low bound")
	}
	if hi != nil {
		h = i.splitInt(hi, instr.High.Type(), Cap, "slice high bound")
	}
	if max != nil {
		m = i.splitInt(max, instr.Max.Type(), Cap, "slice max bound")
	}
	_, isStr := x.(string)
	_, isSym := x.(symstr)
	if isStr || isSym {
		if l < 0 || h < l || h > int64(Len) {
			i.throw(fmt.Sprintf("slice bounds out of range [%d:%d] with length %d", l, h, Len))
		}
	} else if l < 0 || h < l || m < h || m > int64(Cap) {
		i.throw(fmt.Sprintf("slice bounds out of range [%d:%d:%d] with capacity %d", l, h, m, Cap))
	}
	switch x := x.(type) {
	case string:
		return x[l:h]
	case symstr:
		return mkStr(x.b[l:h])
	case []value:
		if x == nil {
			return []value(nil)
		}
		return x[l:h:m]
	case *value:
		a := (*x).(array)
		return []value(a)[l:h:m]
	}
	panic("unreachable")
}

// ---- maps

func (i *interp) mapFind(m *amap, k value) *mapEntry {
	if m == nil {
		return nil
	}
	for _, e := range m.entries {
		eq := i.equalsT(m.kt, e.k, k)
		if eq.IsTrue() {
			return e
		}
		if eq.IsFalse() {
			continue
		}
		if i.decide(eq, "map key equal") {
			return e
		}
	}
	return nil
}

func (i *interp) lookup(instr *ssa.Lookup, x, idx value) value {
	m, ok := x.(*amap)
	if !ok {
		unsupported("lookup in %T", x)
	}
	mt := instr.X.Type().Underlying().(*types.Map)
	if ifv, ok := idx.(iface); ok && ifv.t != nil && !types.Comparable(ifv.t) {
		i.throw("hash of unhashable type " + ifv.t.String())
	}
	var v value
	e := i.mapFind(m, idx)
	found := e != nil
	if found {
		v = copyVal(e.v)
	} else {
		v = i.zero(mt.Elem())
	}
	if instr.CommaOk {
		return tuple{v, i.ctx.Bool(found)}
	}
	return v
}

func (i *interp) mapUpdate(m *amap, k, v value) {
	if m == nil {
		i.throw("assignment to entry in nil map")
	}
	if ifv, ok := k.(iface); ok && ifv.t != nil && !types.Comparable(ifv.t) {
		i.throw("hash of unhashable type " + ifv.t.String())
	}
	if e := i.mapFind(m, k); e != nil {
		e.v = copyVal(v)
		return
	}
	m.entries = append(m.entries, &mapEntry{k: copyVal(k), v: copyVal(v)})
}

func (i *interp) mapDelete(m *amap, k value) {
	if m == nil {
		return
	}
	e := i.mapFind(m, k)
	if e == nil {
		return
	}
	for idx, x := range m.entries {
		if x == e {
			m.entries = append(m.entries[:idx:idx], m.entries[idx+1:]...)
			return
		}
	}
}

type mapIter struct {
	m    *amap
	snap []*mapEntry
	pos  int
}

func (it *mapIter) next(i *interp) tuple {
	for it.pos < len(it.snap) {
		e := it.snap[it.pos]
		it.pos++
		// skip entries deleted during iteration
		live := false
		for _, x := range it.m.entries {
			if x == e {
				live = true
				break
			}
		}
		if live {
			return tuple{i.ctx.True(), copyVal(e.k), copyVal(e.v)}
		}
	}
	return tuple{i.ctx.False(), nil, nil}
}

type stringIter struct {
	s   string
	pos int
}

func (it *stringIter) next(i *interp) tuple {
	if it.pos >= len(it.s) {
		return tuple{i.ctx.False(), nil, nil}
	}
	r, n := utf8.DecodeRuneInString(it.s[it.pos:])
	k := it.pos
	it.pos += n
	return tuple{i.ctx.True(), i.ctx.BV(64, uint64(k)), i.ctx.BV(32, uint64(uint32(r)))}
}

func (i *interp) rangeIter(x value) iter {
	switch x := x.(type) {
	case *amap:
		if x == nil {
			return &mapIter{m: &amap{}}
		}
		return &mapIter{m: x, snap: append([]*mapEntry(nil), x.entries...)}
	case string:
		return &stringIter{s: x}
	case symstr:
		unsupported("range over string with symbolic bytes (rune decoding)")
	}
	unsupported("range over %T", x)
	return nil
}

// ---- type assertions

func (i *interp) checkInterface(itype *types.Interface, x iface) string {
	if meth, _ := types.MissingMethod(x.t, itype, true); meth != nil {
		return fmt.Sprintf("interface conversion: %v is not %v: missing method %s", x.t, itype, meth.Name())
	}
	return ""
}

func (i *interp) typeAssert(instr *ssa.TypeAssert, itf iface) value {
	var v value
	err := ""
	if itf.t == nil {
		err = fmt.Sprintf("interface conversion: interface is nil, not %s", instr.AssertedType)
	} else if idst, ok := instr.AssertedType.Underlying().(*types.Interface); ok {
		v = itf
		err = i.checkInterface(idst, itf)
	} else if types.Identical(itf.t, instr.AssertedType) {
		v = itf.v
	} else {
		err = fmt.Sprintf("interface conversion: interface is %s, not %s", itf.t, instr.AssertedType)
	}
	if err != "" {
		if !instr.CommaOk {
			i.throw(err)
		}
		return tuple{i.zero(instr.AssertedType), i.ctx.False()}
	}
	if instr.CommaOk {
		return tuple{v, i.ctx.True()}
	}
	return v
}

// ---- conversions

func (i *interp) conv(tDst, tSrc types.Type, x value) value {
	c := i.ctx
	ud, us := tDst.Underlying(), tSrc.Underlying()
	// unsafe.Pointer conversions
	if b, ok := ud.(*types.Basic); ok && b.Kind() == types.UnsafePointer {
		switch x := x.(type) {
		case *value:
			return unsafePtr{p: x, t: deref(tSrc)}
		case viewPtr:
			return unsafePtr{p: x.p, t: x.t}
		case unsafePtr:
			return x
		}
		unsupported("conversion of %T to unsafe.Pointer", x)
	}
	if b, ok := us.(*types.Basic); ok && b.Kind() == types.UnsafePointer {
		up := x.(unsafePtr)
		if _, isPtr := ud.(*types.Pointer); isPtr {
			if up.p == nil {
				return (*value)(nil)
			}
			dt := deref(tDst)
			if up.t != nil && types.Identical(up.t.Underlying(), dt.Underlying()) {
				return up.p
			}
			if _, _, isInt := intInfo(dt); isInt {
				if _, isArr := (*up.p).(array); isArr {
					return viewPtr{p: up.p, t: dt}
				}
			}
			unsupported("unsafe pointer cast from *%s to *%s", up.t, dt)
		}
		unsupported("unsafe.Pointer to %s", tDst)
	}
	switch ud := ud.(type) {
	case *types.Pointer, *types.Signature, *types.Chan, *types.Map, *types.Struct, *types.Array, *types.Interface:
		return x
	case *types.Slice:
		// string -> []byte / []rune
		if isString(tSrc) {
			eb := ud.Elem().Underlying().(*types.Basic)
			if eb.Kind() == types.Uint8 {
				bs := i.strBytes(x)
				r := make([]value, len(bs))
				for k, b := range bs {
					r[k] = b
				}
				return r
			}
			s, ok := x.(string)
			if !ok {
				unsupported("[]rune of symbolic string")
			}
			var r []value
			for _, ch := range s {
				r = append(r, c.BV(32, uint64(uint32(ch))))
			}
			if r == nil {
				r = []value{}
			}
			return r
		}
		return x
	case *types.Basic:
		if ud.Info()&types.IsString != 0 {
			switch x := x.(type) {
			case string, symstr:
				return x
			case []value:
				if sl, ok := us.(*types.Slice); ok {
					eb := sl.Elem().Underlying().(*types.Basic)
					if eb.Kind() == types.Uint8 {
						bs := make([]*term.T, len(x))
						for k, e := range x {
							bs[k] = e.(*term.T)
						}
						return mkStr(bs)
					}
					// []rune
					var rs []rune
					for _, e := range x {
						n, ok := constInt(e)
						if !ok {
							unsupported("string of symbolic runes")
						}
						rs = append(rs, rune(int32(n)))
					}
					return string(rs)
				}
			case *term.T:
				// integer -> string (rune)
				if !x.IsConst() {
					unsupported("string(rune) of symbolic integer")
				}
				_, signed, _ := intInfo(tSrc)
				var n int64
				if signed {
					n = term.SignExt64(x.K, x.W)
				} else {
					n = int64(x.K)
				}
				if n < 0 || n > utf8.MaxRune {
					return string(utf8.RuneError)
				}
				return string(rune(n))
			}
			unsupported("conversion of %T to string", x)
		}
		dw, _, dInt := intInfo(ud)
		sw, ssigned, sInt := intInfo(us)
		if dInt && sInt && dw > 0 && sw > 0 {
			xt := x.(*term.T)
			_, c.Hint, _ = intInfo(ud)
			switch {
			case dw == sw:
				return xt
			case dw < sw:
				return c.ExtractT(xt, dw-1, 0)
			case ssigned:
				return c.SExtT(xt, dw)
			default:
				return c.ZExtT(xt, dw)
			}
		}
		if dInt && dw == 0 && sInt && sw == 0 {
			return x
		}
		// float <-> int, float <-> float: concrete only
		if isFloat(ud) || isFloat(us) {
			return i.convFloat(ud, us, x)
		}
	}
	unsupported("conversion %s -> %s (%T)", tSrc, tDst, x)
	return nil
}

func (i *interp) convFloat(ud *types.Basic, us types.Type, x value) value {
	c := i.ctx
	var f float64
	var cx complex128
	isCx := false
	switch x := x.(type) {
	case float32:
		f = float64(x)
	case float64:
		f = x
	case complex64:
		cx, isCx = complex128(x), true
	case complex128:
		cx, isCx = x, true
	case *term.T:
		if !x.IsConst() {
			unsupported("conversion of symbolic integer to float (native floats are concrete only)")
		}
		_, signed, _ := intInfo(us)
		if signed {
			f = float64(term.SignExt64(x.K, x.W))
		} else {
			f = float64(x.K)
		}
	default:
		unsupported("convFloat from %T", x)
	}
	if isCx {
		switch ud.Kind() {
		case types.Complex64:
			return complex64(cx)
		case types.Complex128:
			return cx
		}
		unsupported("complex conversion")
	}
	switch ud.Kind() {
	case types.Float32:
		return float32(f)
	case types.Float64:
		return f
	}
	w, signed, ok := intInfo(ud)
	if !ok || w == 0 {
		unsupported("float conversion to %s", ud)
	}
	// Go spec: out-of-range float->int is implementation-defined; follow amd64.
	if signed {
		return c.BV(w, uint64(int64(f)))
	}
	return c.BV(w, uint64(f))
}

// ---- builtins

func (i *interp) callBuiltin(fr *frame, fn *ssa.Builtin, args []value, instrArgs []ssa.Value) value {
	c := i.ctx
	switch fn.Name() {
	case "append":
		if len(args) == 1 {
			return args[0]
		}
		var tail []value
		switch s := args[1].(type) {
		case string, symstr:
			for _, b := range i.strBytes(s) {
				tail = append(tail, b)
			}
		case []value:
			tail = s
		}
		base := args[0].([]value)
		if len(tail) == 0 {
			return base
		}
		// Go's growth policy is not modelled exactly: when capacity is
		// insufficient a fresh backing array of exactly the needed size
		// (doubling) is allocated. Aliasing when capacity suffices is exact.
		if len(base)+len(tail) <= cap(base) {
			r := base[:len(base)+len(tail)]
			for k, e := range tail {
				r[len(base)+k] = copyVal(e)
			}
			return r
		}
		ncap := max(2*cap(base), len(base)+len(tail))
		r := make([]value, len(base), ncap)
		copy(r, base)
		for _, e := range tail {
			r = append(r, copyVal(e))
		}
		// pre-fill spare capacity with zero values of the element type
		if st, ok := instrArgs[0].Type().Underlying().(*types.Slice); ok {
			full := r[:cap(r)]
			for k := len(r); k < len(full); k++ {
				full[k] = i.zero(st.Elem())
			}
		}
		return r

	case "copy":
		dst := args[0].([]value)
		var src []value
		switch s := args[1].(type) {
		case string, symstr:
			for _, b := range i.strBytes(s) {
				src = append(src, b)
			}
		case []value:
			src = s
		}
		n := min(len(dst), len(src))
		tmp := make([]value, n)
		for k := 0; k < n; k++ {
			tmp[k] = copyVal(src[k])
		}
		copy(dst, tmp)
		return c.BV(64, uint64(n))

	case "close":
		return nil

	case "delete":
		i.mapDelete(args[0].(*amap), args[1])
		return nil

	case "print", "println":
		return nil

	case "Sizeof", "Alignof":
		// unsafe.Sizeof / Alignof of a type parameter's instance (not folded by the compiler in generic code)
		if len(instrArgs) != 1 {
			unsupported("unsafe.%s arity", fn.Name())
		}
		sizes := types.SizesFor("gc", "amd64")
		n := sizes.Sizeof(instrArgs[0].Type())
		if fn.Name() == "Alignof" {
			n = sizes.Alignof(instrArgs[0].Type())
		}
		return c.BV(64, uint64(n))

	case "len":
		switch x := args[0].(type) {
		case string, symstr:
			return c.BV(64, uint64(strLen(x)))
		case array:
			return c.BV(64, uint64(len(x)))
		case *value:
			if x == nil {
				return c.BV(64, uint64(deref(instrArgs[0].Type()).Underlying().(*types.Array).Len()))
			}
			return c.BV(64, uint64(len((*x).(array))))
		case []value:
			return c.BV(64, uint64(len(x)))
		case *amap:
			if x == nil {
				return c.BV(64, 0)
			}
			return c.BV(64, uint64(len(x.entries)))
		case *chanv:
			if x == nil {
				return c.BV(64, 0)
			}
			return c.BV(64, uint64(len(x.buf)))
		}
		unsupported("len of %T", args[0])

	case "cap":
		switch x := args[0].(type) {
		case array:
			return c.BV(64, uint64(len(x)))
		case *value:
			return c.BV(64, uint64(len((*x).(array))))
		case []value:
			return c.BV(64, uint64(cap(x)))
		case *chanv:
			if x == nil {
				return c.BV(64, 0)
			}
			return c.BV(64, uint64(x.cap))
		}
		unsupported("cap of %T", args[0])

	case "min", "max":
		r := args[0]
		t := instrArgs[0].Type()
		for k := 1; k < len(args); k++ {
			var lt *term.T
			if _, _, ok := intInfo(t); ok {
				lt = i.binop(token.LSS, t, t, args[k], r).(*term.T)
			} else if isString(t) {
				lt = i.strCompareOp(token.LSS, args[k], r)
			} else {
				unsupported("min/max on %s", t)
			}
			if fn.Name() == "max" {
				if _, _, ok := intInfo(t); ok {
					lt = i.binop(token.GTR, t, t, args[k], r).(*term.T)
				} else {
					lt = i.strCompareOp(token.GTR, args[k], r)
				}
			}
			if rt, ok := r.(*term.T); ok {
				r = c.IteT(lt, args[k].(*term.T), rt)
			} else if i.decide(lt, "min/max") {
				r = args[k]
			}
		}
		return r

	case "panic":
		panic(targetPanic{v: args[0], where: i.where()})

	case "recover":
		return i.doRecover(fr)

	case "clear":
		switch x := args[0].(type) {
		case *amap:
			if x != nil {
				x.entries = nil
			}
		case []value:
			if st, ok := instrArgs[0].Type().Underlying().(*types.Slice); ok {
				for k := range x {
					x[k] = i.zero(st.Elem())
				}
			}
		}
		return nil

	case "ssa:wrapnilchk":
		recv := args[0]
		if p, ok := recv.(*value); ok && p == nil {
			i.throw(fmt.Sprintf("value method %s.%s called using nil *%s pointer", toString(args[1]), toString(args[2]), toString(args[1])))
		}
		return recv

	case "real", "imag", "complex":
		unsupported("complex builtins")
	}
	unsupported("builtin %s", fn.Name())
	return nil
}

func (i *interp) sliceToArrayPointer(tDst types.Type, x value) value {
	n := deref(tDst).Underlying().(*types.Array).Len()
	s := x.([]value)
	if int64(len(s)) < n {
		i.throw(fmt.Sprintf("cannot convert slice with length %d to array or pointer to array with length %d", len(s), n))
	}
	if s == nil {
		return (*value)(nil)
	}
	if n == 0 {
		var v value = array{}
		return &v
	}
	// The array must alias the slice's backing store; array is a []value
	// header sharing it.
	var v value = array(s[:n:n])
	return &v
}
