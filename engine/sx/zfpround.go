package sx

import (
	"math"
	"math/big"

	"golang.org/x/tools/go/ssa"

	"verif/engine/term"
)

// Oracles for the compositional floating-point lemmas: "r is the correctly
// rounded (nearest-even) binary64/binary32 value of ±(hi·2^64+lo)·2^e" and
// "f is exactly ±mant·2^e". Symbolically the exact value lives in a wide
// FloatingPoint format (15 exponent bits, 130 significand bits: a 128-bit
// integer and a power-of-two scaling are exact there); concretely math/big.

func roundIsConst(bits int, r uint64, neg bool, hi, lo uint64, e int64) bool {
	p := new(big.Int).Lsh(new(big.Int).SetUint64(hi), 64)
	p.Or(p, new(big.Int).SetUint64(lo))
	v := new(big.Float).SetPrec(300).SetInt(p)
	v.SetMantExp(v, int(e))
	if neg {
		v.Neg(v)
	}
	if bits == 64 {
		f, _ := v.Float64()
		if p.Sign() == 0 && neg {
			f = math.Copysign(0, -1)
		}
		return r == math.Float64bits(f)
	}
	f, _ := v.Float32()
	if p.Sign() == 0 && neg {
		f = float32(math.Copysign(0, -1))
	}
	return uint32(r) == math.Float32bits(f)
}

func unpackIsConst(f uint64, neg bool, mant uint64, e int64) bool {
	x := math.Float64frombits(f)
	if math.IsNaN(x) || math.IsInf(x, 0) {
		return false
	}
	v := new(big.Float).SetPrec(300).SetUint64(mant)
	v.SetMantExp(v, int(e))
	if neg {
		v.Neg(v)
	}
	if mant == 0 {
		return x == 0 && math.Signbit(x) == neg
	}
	return new(big.Float).SetPrec(300).SetFloat64(x).Cmp(v) == 0
}

const wideFP = "(_ FloatingPoint 15 130)"

// 2^k as a wide float: exponent field k+16383, significand 1.0 (valid for |k| < 16000)
func pow2Wide(k string) string {
	return "(fp #b0 ((_ extract 14 0) (bvadd " + k + " (_ bv16383 64))) (_ bv0 129))"
}

func roundTmpl(eb, sb int, rw string) string {
	wide := "(fp.mul RNE ((_ to_fp_unsigned 15 130) RNE (concat %2 %3)) " + pow2Wide("%4") + ")"
	signed := "(ite %1 (fp.neg " + wide + ") " + wide + ")"
	return "(= ((_ to_fp " + itoa(eb) + " " + itoa(sb) + ") " + rw + ") ((_ to_fp " + itoa(eb) + " " + itoa(sb) + ") RNE " + signed + "))"
}

func init() {
	allConst := func(ts []*term.T) bool {
		for _, t := range ts {
			if !t.IsConst() {
				return false
			}
		}
		return true
	}
	terms := func(args []value) []*term.T {
		ts := make([]*term.T, len(args))
		for k, a := range args {
			ts[k] = a.(*term.T)
		}
		return ts
	}
	verifIntrinsics["verifF64RoundIs"] = func(i *interp, caller *frame, fn *ssa.Function, args []value) value {
		ts := terms(args)
		if allConst(ts) {
			return i.ctx.Bool(roundIsConst(64, ts[0].K, ts[1].IsTrue(), ts[2].K, ts[3].K, int64(ts[4].K)))
		}
		return i.ctx.RawT(roundTmpl(11, 53, "%0"), 0, ts...)
	}
	verifIntrinsics["verifF32RoundIs"] = func(i *interp, caller *frame, fn *ssa.Function, args []value) value {
		ts := terms(args)
		if allConst(ts) {
			return i.ctx.Bool(roundIsConst(32, ts[0].K, ts[1].IsTrue(), ts[2].K, ts[3].K, int64(ts[4].K)))
		}
		return i.ctx.RawT(roundTmpl(8, 24, "%0"), 0, ts...)
	}
	// f (finite) is exactly ±mant·2^e
	verifIntrinsics["verifF64UnpackIs"] = func(i *interp, caller *frame, fn *ssa.Function, args []value) value {
		ts := terms(args)
		if allConst(ts) {
			return i.ctx.Bool(unpackIsConst(ts[0].K, ts[1].IsTrue(), ts[2].K, int64(ts[3].K)))
		}
		wide := "(fp.mul RNE ((_ to_fp_unsigned 15 130) RNE %2) " + pow2Wide("%3") + ")"
		signed := "(ite %1 (fp.neg " + wide + ") " + wide + ")"
		f := "((_ to_fp 11 53) %0)"
		return i.ctx.RawT("(and (not (fp.isNaN "+f+")) (not (fp.isInfinite "+f+")) (= ((_ to_fp 15 130) RNE "+f+") "+signed+"))", 0, ts...)
	}
}
