package sx

import (
	"golang.org/x/tools/go/ssa"
)

// deepCopy duplicates an engine value including everything reachable through
// pointers, slices and maps (no cycle handling: used for amino.DeepCopy of
// plain parameter structs).
func deepCopy(v value, depth int) value {
	if depth > 64 {
		unsupported("deep copy of a cyclic or very deep value")
	}
	switch v := v.(type) {
	case structure:
		a := make(structure, len(v))
		for k := range v {
			a[k] = deepCopy(v[k], depth+1)
		}
		return a
	case array:
		a := make(array, len(v))
		for k := range v {
			a[k] = deepCopy(v[k], depth+1)
		}
		return a
	case tuple:
		a := make(tuple, len(v))
		for k := range v {
			a[k] = deepCopy(v[k], depth+1)
		}
		return a
	case []value:
		if v == nil {
			return v
		}
		a := make([]value, len(v))
		for k := range v {
			a[k] = deepCopy(v[k], depth+1)
		}
		return a
	case *value:
		if v == nil {
			return v
		}
		var cell value = deepCopy(*v, depth+1)
		return &cell
	case iface:
		return iface{t: v.t, v: deepCopy(v.v, depth+1)}
	case *amap:
		if v == nil {
			return v
		}
		m := &amap{kt: v.kt}
		for _, e := range v.entries {
			m.entries = append(m.entries, &mapEntry{k: deepCopy(e.k, depth+1), v: deepCopy(e.v, depth+1)})
		}
		return m
	}
	return v
}

func init() {
	intrinsics["github.com/gnolang/gno/tm2/pkg/amino.DeepCopy"] = func(i *interp, caller *frame, fn *ssa.Function, args []value) value {
		return deepCopy(args[0], 0)
	}
	// maps.clone (runtime-implemented): a shallow copy
	intrinsics["maps.clone"] = func(i *interp, caller *frame, fn *ssa.Function, args []value) value {
		x, ok := args[0].(iface)
		if !ok {
			unsupported("maps.clone of %T", args[0])
		}
		m, ok := x.v.(*amap)
		if !ok {
			unsupported("maps.clone of %T", x.v)
		}
		if m == nil {
			return x
		}
		c := &amap{kt: m.kt}
		for _, e := range m.entries {
			c.entries = append(c.entries, &mapEntry{k: copyVal(e.k), v: copyVal(e.v)})
		}
		return iface{t: x.t, v: c}
	}
}
