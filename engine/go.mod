module verif/engine

go 1.25.9

require golang.org/x/tools v0.47.0

require (
	golang.org/x/mod v0.37.0 // indirect
	golang.org/x/sync v0.21.0 // indirect
)
