package term

import "sort"

// XOR normal form (Ctx.XorNF).  Bit-vector terms of width <= 64 built from
// xor, and/shift by constants, zero-extension, truncation and ites with
// constant arms are GF(2)-linear; the solvers' SAT back ends are weak on the
// resulting xor chains (a BCH checksum identity over 32 symbolic bits is not
// decided in 120 s by z3 or cvc5).  With the flag set the constructors keep
// such terms as a sorted, duplicate-free xor of atoms, distribute the linear
// operators over it, compose shifts and masks on each atom, and merge
// ite(c,K,0) atoms that share a condition, so that equal values become the
// same term and x ^ x cancels syntactically.  Every rule is an identity of
// fixed-width bit-vector arithmetic; nothing is assumed.

// possibleOnes computes a mask of the bits that may be set in t.
func possibleOnes(t *T) uint64 {
	if t.W <= 0 || t.W > 64 {
		return ^uint64(0)
	}
	m := mask(t.W)
	fill := func(x uint64) uint64 {
		r := uint64(0)
		for r < x {
			r = r<<1 | 1
		}
		return r
	}
	po := func(x *T) uint64 {
		if x.W <= 0 || x.W > 64 {
			return ^uint64(0)
		}
		return x.PO
	}
	switch t.Op {
	case Const:
		if t.Big != nil {
			return m
		}
		return t.K
	case And:
		return po(t.A[0]) & po(t.A[1])
	case Or, Xor:
		return po(t.A[0]) | po(t.A[1])
	case Shl:
		if t.A[1].Op == Const {
			if t.A[1].K >= 64 {
				return 0
			}
			return (po(t.A[0]) << t.A[1].K) & m
		}
	case LShr:
		if t.A[1].Op == Const {
			if t.A[1].K >= 64 {
				return 0
			}
			return po(t.A[0]) >> t.A[1].K
		}
		return fill(po(t.A[0]))
	case AShr:
		if p := po(t.A[0]); p>>(t.W-1) == 0 {
			if t.A[1].Op == Const {
				if t.A[1].K >= 64 {
					return 0
				}
				return p >> t.A[1].K
			}
			return fill(p)
		}
	case Add:
		a, b := po(t.A[0]), po(t.A[1])
		if a <= m && b <= m-a {
			return fill(a + b)
		}
	case URem:
		if t.A[1].Op == Const && t.A[1].K > 0 {
			return fill(min(po(t.A[0]), t.A[1].K-1))
		}
	case UDiv:
		if t.A[1].Op == Const && t.A[1].K > 0 {
			return fill(po(t.A[0]) / t.A[1].K)
		}
	case Ite:
		return po(t.A[1]) | po(t.A[2])
	case ZExt:
		return po(t.A[0])
	case SExt:
		if p := po(t.A[0]); t.A[0].W <= 64 && p>>(t.A[0].W-1) == 0 {
			return p
		}
	case Extract:
		if t.A[0].W <= 64 {
			return (po(t.A[0]) >> uint(t.P2)) & m
		}
	case Concat:
		if t.W <= 64 {
			return po(t.A[0])<<uint(t.A[1].W) | po(t.A[1])
		}
	}
	return m
}

func xorAtoms(t *T, atoms *[]*T, k *uint64) {
	for t.Op == Xor {
		xorAtoms(t.A[1], atoms, k)
		t = t.A[0]
	}
	if t.Op == Const {
		*k ^= t.K
		return
	}
	*atoms = append(*atoms, t)
}

func isConstIte(t *T) bool {
	return t.Op == Ite && t.A[1].Op == Const && t.A[2].Op == Const && t.A[1].Big == nil && t.A[2].Big == nil
}

// mkXor builds the canonical xor of the atoms and the constant k (width w).
func (c *Ctx) mkXor(w int, atoms []*T, k uint64) *T {
	masks := map[*T]uint64{}
	var order []*T
	type arms struct{ k1, k2 uint64 }
	ites := map[*T]*arms{}
	var iorder []*T
	add := func(y *T, m uint64) {
		if _, seen := masks[y]; !seen {
			order = append(order, y)
		}
		masks[y] ^= m & y.PO
	}
	for _, a := range atoms {
		switch {
		case isConstIte(a):
			e := ites[a.A[0]]
			if e == nil {
				e = &arms{}
				ites[a.A[0]] = e
				iorder = append(iorder, a.A[0])
			}
			e.k1 ^= a.A[1].K
			e.k2 ^= a.A[2].K
		case a.Op == And && a.A[1].Op == Const && a.A[1].Big == nil:
			add(a.A[0], a.A[1].K)
		default:
			add(a, mask(w))
		}
	}
	var out []*T
	for _, y := range order {
		m := masks[y]
		switch {
		case m == 0:
		case m == y.PO:
			out = append(out, y)
		default:
			out = append(out, c.mk(T{Op: And, W: w, A: []*T{y, c.BV(w, m)}}))
		}
	}
	for _, g := range iorder {
		e := ites[g]
		k ^= e.k2
		if d := e.k1 ^ e.k2; d != 0 {
			out = append(out, c.mk(T{Op: Ite, W: w, A: []*T{g, c.BV(w, d), c.BV(w, 0)}}))
		}
	}
	k &= mask(w)
	if len(out) == 0 {
		return c.BV(w, k)
	}
	sort.Slice(out, func(i, j int) bool { return out[i].ID < out[j].ID })
	r := out[0]
	for _, a := range out[1:] {
		r = c.mk(T{Op: Xor, W: w, A: []*T{r, a}})
	}
	if k != 0 {
		r = c.mk(T{Op: Xor, W: w, A: []*T{r, c.BV(w, k)}})
	}
	return r
}

func (c *Ctx) xorNF(w int, a, b *T) *T {
	var atoms []*T
	var k uint64
	xorAtoms(a, &atoms, &k)
	xorAtoms(b, &atoms, &k)
	return c.mkXor(w, atoms, k)
}

// distribute applies the linear map f to every atom (and fk to the constant) of an xor.
func (c *Ctx) distribute(x *T, w int, f func(*T) *T) *T {
	var atoms []*T
	var k uint64
	xorAtoms(x, &atoms, &k)
	var out []*T
	var k2 uint64
	if k != 0 {
		xorAtoms(f(c.BV(x.W, k)), &out, &k2)
	}
	for _, a := range atoms {
		xorAtoms(f(a), &out, &k2)
	}
	return c.mkXor(w, out, k2)
}

// lin applies op (And, Shl, LShr) with the constant K to x in normal form.
func (c *Ctx) lin(op Op, x *T, K uint64) *T {
	w := x.W
	m := mask(w)
	if x.Op == Const {
		switch op {
		case And:
			return c.BV(w, x.K&K)
		case Shl:
			if K >= 64 {
				return c.BV(w, 0)
			}
			return c.BV(w, x.K<<K)
		default:
			if K >= 64 {
				return c.BV(w, 0)
			}
			return c.BV(w, x.K>>K)
		}
	}
	if x.Op == Xor {
		return c.distribute(x, w, func(a *T) *T { return c.lin(op, a, K) })
	}
	if isConstIte(x) {
		return c.IteT(x.A[0], c.lin(op, x.A[1], K), c.lin(op, x.A[2], K))
	}
	isK := func(t *T) bool { return t.Op == Const && t.Big == nil }
	switch op {
	case And:
		K &= x.PO
		if K == 0 {
			return c.BV(w, 0)
		}
		if K == x.PO {
			return x
		}
		if x.Op == And && isK(x.A[1]) {
			return c.lin(And, x.A[0], K&x.A[1].K)
		}
		return c.mk(T{Op: And, W: w, A: []*T{x, c.BV(w, K)}})
	case Shl:
		if K == 0 {
			return x
		}
		if K >= uint64(w) || (x.PO<<K)&m == 0 {
			return c.BV(w, 0)
		}
		switch {
		case x.Op == And && isK(x.A[1]):
			return c.lin(And, c.lin(Shl, x.A[0], K), (x.A[1].K<<K)&m)
		case x.Op == Shl && isK(x.A[1]):
			return c.lin(Shl, x.A[0], x.A[1].K+K)
		case x.Op == LShr && isK(x.A[1]) && x.A[1].K < uint64(w):
			a := x.A[1].K
			var inner *T
			if a >= K {
				inner = c.lin(LShr, x.A[0], a-K)
			} else {
				inner = c.lin(Shl, x.A[0], K-a)
			}
			return c.lin(And, inner, ((m>>a)<<K)&m)
		}
		return c.mk(T{Op: Shl, W: w, A: []*T{x, c.BV(w, K)}})
	case LShr:
		if K == 0 {
			return x
		}
		if K >= uint64(w) || x.PO>>K == 0 {
			return c.BV(w, 0)
		}
		switch {
		case x.Op == And && isK(x.A[1]):
			return c.lin(And, c.lin(LShr, x.A[0], K), x.A[1].K>>K)
		case x.Op == LShr && isK(x.A[1]):
			return c.lin(LShr, x.A[0], x.A[1].K+K)
		case x.Op == Shl && isK(x.A[1]) && x.A[1].K < uint64(w):
			a := x.A[1].K
			var inner *T
			if a >= K {
				inner = c.lin(Shl, x.A[0], a-K)
			} else {
				inner = c.lin(LShr, x.A[0], K-a)
			}
			return c.lin(And, inner, m>>K)
		}
		return c.mk(T{Op: LShr, W: w, A: []*T{x, c.BV(w, K)}})
	}
	panic("term: lin")
}

// nfBin is tried first by Bin when the flag is set; nil means "no rule".
func (c *Ctx) nfBin(op Op, a, b *T) *T {
	w := a.W
	isK := func(t *T) bool { return t.Op == Const && t.Big == nil }
	switch op {
	case Xor:
		return c.xorNF(w, a, b)
	case And:
		if isK(b) {
			return c.lin(And, a, b.K)
		}
		if isK(a) {
			return c.lin(And, b, a.K)
		}
	case Shl, LShr:
		if isK(b) {
			return c.lin(op, a, b.K)
		}
	case Or:
		return c.nfOr(a, b)
	case AShr:
		if isK(b) && a.PO>>(w-1) == 0 {
			return c.lin(LShr, a, b.K)
		}
	}
	return nil
}

// nfIte factors the atoms common to both arms out of an ite of xors.
func (c *Ctx) nfIte(g, a, b *T) *T {
	if r := c.nfCondIte(g, a, b); r != nil {
		return r
	}
	if a.Op != Xor && b.Op != Xor {
		return nil
	}
	var aa, ba []*T
	var ka, kb uint64
	xorAtoms(a, &aa, &ka)
	xorAtoms(b, &ba, &kb)
	inB := map[*T]int{}
	for _, t := range ba {
		inB[t]++
	}
	var common, restA, restB []*T
	for _, t := range aa {
		if inB[t] > 0 {
			inB[t]--
			common = append(common, t)
		} else {
			restA = append(restA, t)
		}
	}
	if len(common) == 0 {
		return nil
	}
	for _, t := range ba {
		if n := inB[t]; n > 0 {
			inB[t]--
			restB = append(restB, t)
		}
	}
	w := a.W
	inner := c.IteT(g, c.mkXor(w, restA, ka), c.mkXor(w, restB, kb))
	var k uint64
	xorAtoms(inner, &common, &k)
	return c.mkXor(w, common, k)
}

// nfZExt / nfExtract distribute the width changes.
func (c *Ctx) nfZExt(a *T, w int) *T {
	switch {
	case a.Op == Xor:
		return c.distribute(a, w, func(t *T) *T { return c.ZExtT(t, w) })
	case isConstIte(a):
		return c.IteT(a.A[0], c.ZExtT(a.A[1], w), c.ZExtT(a.A[2], w))
	case a.Op == And && a.A[1].Op == Const && a.A[1].Big == nil:
		return c.lin(And, c.ZExtT(a.A[0], w), a.A[1].K)
	case a.Op == Extract && a.P2 == 0 && a.A[0].W == w:
		return c.lin(And, a.A[0], mask(a.W))
	}
	return nil
}

func (c *Ctx) nfExtract(a *T, hi int) *T {
	w := hi + 1
	switch {
	case a.Op == Xor:
		return c.distribute(a, w, func(t *T) *T { return c.ExtractT(t, hi, 0) })
	case isConstIte(a):
		return c.IteT(a.A[0], c.ExtractT(a.A[1], hi, 0), c.ExtractT(a.A[2], hi, 0))
	case a.Op == And && a.A[1].Op == Const && a.A[1].Big == nil:
		return c.lin(And, c.ExtractT(a.A[0], hi, 0), a.A[1].K&mask(w))
	}
	return nil
}

// nfOr: an or of terms with disjoint possible bits is their xor.
func (c *Ctx) nfOr(a, b *T) *T {
	if a.PO&b.PO == 0 {
		return c.xorNF(a.W, a, b)
	}
	return nil
}

// nfCondIte: ite(X == v, K1, K2) with X a one-bit-valued xor of atoms is
// K2 ^ xor_j ite(a_j == 1, K1^K2, 0) (^ K1^K2 when the parity constant asks
// for it): the feedback of an LFSR step becomes linear in the input bits.
func (c *Ctx) nfCondIte(g, a, b *T) *T {
	if g.Op != Eq || !isConstLeaf(a) || !isConstLeaf(b) {
		return nil
	}
	X, v := g.A[0], g.A[1]
	if v.Op != Const || v.Big != nil || X.W <= 0 || X.W > 64 || X.Op != Xor || X.PO != 1 || v.K > 1 {
		return nil
	}
	k1, k2 := a.K, b.K
	if v.K == 0 {
		k1, k2 = k2, k1
	}
	d := k1 ^ k2
	var atoms []*T
	var kx uint64
	xorAtoms(X, &atoms, &kx)
	w := a.W
	k := k2
	if kx&1 == 1 {
		k ^= d
	}
	var out []*T
	one := c.BV(X.W, 1)
	for _, at := range atoms {
		t := c.IteT(c.Cmp(Eq, at, one), c.BV(w, d), c.BV(w, 0))
		xorAtoms(t, &out, &k)
	}
	return c.mkXor(w, out, k)
}

func isConstLeaf(t *T) bool { return t.Op == Const && t.Big == nil }

// nfEqGauss: (xor_j ite(g_j, K_j, 0)) ^ k == t is a GF(2) linear system in
// the conditions g_j; Gaussian elimination replaces it by independent parity
// constraints (or decides it when the system is inconsistent).
func (c *Ctx) nfEqGauss(a, b *T) *T {
	if !isConstLeaf(b) || a.Op != Xor || a.W > 64 {
		return nil
	}
	var atoms []*T
	var k uint64
	xorAtoms(a, &atoms, &k)
	if len(atoms) < 2 || len(atoms) > 512 {
		return nil
	}
	for _, at := range atoms {
		if !isConstIte(at) || at.A[2].K != 0 {
			return nil
		}
	}
	n := len(atoms)
	words := (n + 63) / 64
	type row struct {
		bits []uint64
		rhs  bool
	}
	target := k ^ b.K
	var rows []*row
	for p := 0; p < a.W; p++ {
		r := &row{bits: make([]uint64, words), rhs: target>>uint(p)&1 == 1}
		any := false
		for j, at := range atoms {
			if at.A[1].K>>uint(p)&1 == 1 {
				r.bits[j/64] |= 1 << uint(j%64)
				any = true
			}
		}
		if !any {
			if r.rhs {
				return c.False()
			}
			continue
		}
		rows = append(rows, r)
	}
	// reduced row echelon form
	var piv []*row
	for col := 0; col < n; col++ {
		var pr *row
		for idx, r := range rows {
			if r != nil && r.bits[col/64]>>uint(col%64)&1 == 1 {
				pr = r
				rows[idx] = nil
				break
			}
		}
		if pr == nil {
			continue
		}
		for _, r := range rows {
			if r != nil && r.bits[col/64]>>uint(col%64)&1 == 1 {
				for wd := range r.bits {
					r.bits[wd] ^= pr.bits[wd]
				}
				r.rhs = r.rhs != pr.rhs
			}
		}
		for _, r := range piv {
			if r.bits[col/64]>>uint(col%64)&1 == 1 {
				for wd := range r.bits {
					r.bits[wd] ^= pr.bits[wd]
				}
				r.rhs = r.rhs != pr.rhs
			}
		}
		piv = append(piv, pr)
	}
	for _, r := range rows {
		if r != nil && r.rhs { // 0 = 1
			return c.False()
		}
	}
	res := c.True()
	for _, r := range piv {
		var par *T
		for j := 0; j < n; j++ {
			if r.bits[j/64]>>uint(j%64)&1 == 1 {
				g := atoms[j].A[0]
				if par == nil {
					par = g
				} else {
					par = c.NotB(c.Cmp(Eq, par, g)) // Boolean xor
				}
			}
		}
		if !r.rhs {
			par = c.NotB(par)
		}
		res = c.AndB(res, par)
	}
	return res
}

// GaussEq rewrites a branch condition of the form [not] (xor-of-const-ites == K)
// by Gaussian elimination (nfEqGauss).  It is applied to conditions that are
// about to be decided, not inside term construction, so that equalities used
// as table-lookup guards keep their shape.
func (c *Ctx) GaussEq(t *T) *T {
	if !c.XorNF {
		return t
	}
	switch {
	case t.Op == Eq && t.A[0].W > 0 && t.A[0].W <= 64:
		x, k := t.A[0], t.A[1]
		if x.IsConst() {
			x, k = k, x
		}
		if r := c.nfEqGauss(x, k); r != nil {
			return r
		}
	case t.Op == BNot:
		if r := c.GaussEq(t.A[0]); r != t.A[0] {
			return c.NotB(r)
		}
	}
	return t
}
