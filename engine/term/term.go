// Package term is the hash-consed term DAG shared by the symbolic executor
// and the SMT printers (bit-vector rendering and integer rendering).
package term

import (
	"fmt"
	"math/big"
	"math/bits"
	"strings"
)

type Op uint8

const (
	Const Op = iota
	Var
	Add
	Sub
	Mul
	UDiv
	SDiv
	URem
	SRem
	And
	Or
	Xor
	Not
	Neg
	Shl
	LShr
	AShr
	Eq
	Ult
	Ule
	Slt
	Sle
	BAnd
	BOr
	BNot
	Ite
	Extract
	Concat
	ZExt
	SExt
	IAdd
	ISub
	IMul
	IDiv // euclidean (SMT div)
	IMod // euclidean (SMT mod)
	INeg
	ILt
	ILe
	BV2IntU
	BV2IntS
	Int2BV
	UF
	Raw
)

var opNames = map[Op]string{Const: "const", Var: "var", Add: "bvadd", Sub: "bvsub", Mul: "bvmul", UDiv: "bvudiv", SDiv: "bvsdiv",
	URem: "bvurem", SRem: "bvsrem", And: "bvand", Or: "bvor", Xor: "bvxor", Not: "bvnot", Neg: "bvneg", Shl: "bvshl", LShr: "bvlshr",
	AShr: "bvashr", Eq: "=", Ult: "bvult", Ule: "bvule", Slt: "bvslt", Sle: "bvsle", BAnd: "and", BOr: "or", BNot: "not", Ite: "ite",
	Extract: "extract", Concat: "concat", ZExt: "zero_extend", SExt: "sign_extend", IAdd: "+", ISub: "-", IMul: "*", IDiv: "div", IMod: "mod",
	INeg: "-", ILt: "<", ILe: "<=", BV2IntU: "bv2nat", BV2IntS: "bv2int_s", Int2BV: "int2bv", UF: "uf", Raw: "raw"}

// Sorts: W > 0 bit-vector of that width; W == 0 Bool; W == -1 Int.
const (
	SortBool = 0
	SortInt  = -1
)

type T struct {
	Op   Op
	W    int
	A    []*T
	K    uint64   // constant value (W in 1..64, or Bool 0/1)
	Big  *big.Int // constant value for Int sort or W > 64
	Name string   // Var / UF / Raw template
	P1   int      // extract hi / ext amount
	P2   int      // extract lo
	Sg   bool     // integer rendering: the term is represented by its signed value
	PO   uint64   // width 1..64: mask of the bits that may be set (computed at construction)
	ID   int
}

func (t *T) IsConst() bool { return t.Op == Const }
func (t *T) IsTrue() bool  { return t.Op == Const && t.W == 0 && t.K == 1 }
func (t *T) IsFalse() bool { return t.Op == Const && t.W == 0 && t.K == 0 }

type key struct {
	op         Op
	w          int
	a0, a1, a2 int
	k          uint64
	name       string
	p1, p2     int
	sg         bool
}

type Ctx struct {
	tab   map[key]*T
	next  int
	Vars  []*T
	varBy map[string]*T
	NOps  int
	Hint  bool // signedness of the Go type of the value being built (integer rendering only)
	XorNF bool // keep GF(2)-linear terms in xor normal form (xornf.go)
}

func NewCtx() *Ctx {
	return &Ctx{tab: map[key]*T{}, varBy: map[string]*T{}}
}

func mask(w int) uint64 {
	if w >= 64 {
		return ^uint64(0)
	}
	return (uint64(1) << uint(w)) - 1
}

// SignExt64 interprets the low w bits of v as signed.
func SignExt64(v uint64, w int) int64 {
	if w >= 64 {
		return int64(v)
	}
	s := uint(64 - w)
	return int64(v<<s) >> s
}

func (c *Ctx) mk(t T) *T {
	if t.W > 0 {
		switch t.Op {
		case SExt, AShr, SDiv, SRem:
			t.Sg = true
		case Add, Sub, Mul, Neg, Not, Shl, Int2BV, Var, UF, Raw:
			t.Sg = c.Hint
		case Ite:
			if t.A[1].Op != Const {
				t.Sg = t.A[1].Sg
			} else {
				t.Sg = t.A[2].Sg
			}
		}
	}
	k := key{sg: t.Sg, op: t.Op, w: t.W, k: t.K, name: t.Name, p1: t.P1, p2: t.P2, a0: -1, a1: -1, a2: -1}
	switch len(t.A) {
	case 0:
	case 1:
		k.a0 = t.A[0].ID
	case 2:
		k.a0, k.a1 = t.A[0].ID, t.A[1].ID
	case 3:
		k.a0, k.a1, k.a2 = t.A[0].ID, t.A[1].ID, t.A[2].ID
	default:
		var sb strings.Builder
		sb.WriteString(t.Name)
		for _, a := range t.A {
			fmt.Fprintf(&sb, ",%d", a.ID)
		}
		k.name = sb.String()
	}
	if t.Big != nil {
		k.name = t.Big.String()
	}
	if r, ok := c.tab[k]; ok {
		return r
	}
	c.next++
	t.ID = c.next
	t.PO = possibleOnes(&t)
	r := &t
	c.tab[k] = r
	c.NOps++
	return r
}

// ---- constants and variables

func (c *Ctx) BV(w int, v uint64) *T {
	if w > 64 {
		return c.BVBig(w, new(big.Int).SetUint64(v))
	}
	return c.mk(T{Op: Const, W: w, K: v & mask(w)})
}

func (c *Ctx) BVBig(w int, v *big.Int) *T {
	m := new(big.Int).Lsh(big.NewInt(1), uint(w))
	v = new(big.Int).Mod(v, m)
	if w <= 64 {
		return c.mk(T{Op: Const, W: w, K: v.Uint64()})
	}
	return c.mk(T{Op: Const, W: w, Big: v})
}

func (c *Ctx) Bool(b bool) *T {
	if b {
		return c.mk(T{Op: Const, W: 0, K: 1})
	}
	return c.mk(T{Op: Const, W: 0, K: 0})
}

func (c *Ctx) Int(v *big.Int) *T     { return c.mk(T{Op: Const, W: SortInt, Big: new(big.Int).Set(v)}) }
func (c *Ctx) IntI64(v int64) *T     { return c.Int(big.NewInt(v)) }
func (c *Ctx) True() *T              { return c.Bool(true) }
func (c *Ctx) False() *T             { return c.Bool(false) }
func (c *Ctx) LookupVar(n string) *T { return c.varBy[n] }

func (c *Ctx) NewVar(name string, w int) *T {
	if v, ok := c.varBy[name]; ok {
		if v.W != w {
			panic("term: variable " + name + " redeclared with another sort")
		}
		return v
	}
	v := c.mk(T{Op: Var, W: w, Name: name})
	c.varBy[name] = v
	c.Vars = append(c.Vars, v)
	return v
}

// ConstBig returns the value of a constant term as a big.Int (unsigned for BV).
func (t *T) ConstBig() *big.Int {
	if t.Big != nil {
		return new(big.Int).Set(t.Big)
	}
	return new(big.Int).SetUint64(t.K)
}

func (c *Ctx) wideBin(op Op, a, b *T) *T {
	x, y := a.ConstBig(), b.ConstBig()
	w := a.W
	r := new(big.Int)
	switch op {
	case Add:
		r.Add(x, y)
	case Sub:
		r.Sub(x, y)
	case Mul:
		r.Mul(x, y)
	case And:
		r.And(x, y)
	case Or:
		r.Or(x, y)
	case Xor:
		r.Xor(x, y)
	case Shl:
		if y.BitLen() > 16 || y.Uint64() >= uint64(w) {
			r.SetInt64(0)
		} else {
			r.Lsh(x, uint(y.Uint64()))
		}
	case LShr:
		if y.BitLen() > 16 || y.Uint64() >= uint64(w) {
			r.SetInt64(0)
		} else {
			r.Rsh(x, uint(y.Uint64()))
		}
	case UDiv:
		if y.Sign() == 0 {
			return nil
		}
		r.Quo(x, y)
	case URem:
		if y.Sign() == 0 {
			return nil
		}
		r.Rem(x, y)
	default:
		return nil
	}
	return c.BVBig(w, r)
}

// ---- bit-vector binary operators

func (c *Ctx) Bin(op Op, a, b *T) *T {
	if a.W != b.W || a.W <= 0 {
		panic(fmt.Sprintf("term: %s on sorts %d,%d", opNames[op], a.W, b.W))
	}
	w := a.W
	if c.XorNF && w <= 64 && !(a.IsConst() && b.IsConst()) {
		if r := c.nfBin(op, a, b); r != nil {
			return r
		}
	}
	if a.IsConst() && b.IsConst() {
		if w > 64 {
			if r := c.wideBin(op, a, b); r != nil {
				return r
			}
		} else {
			x, y := a.K, b.K
			switch op {
			case Add:
				return c.BV(w, x+y)
			case Sub:
				return c.BV(w, x-y)
			case Mul:
				return c.BV(w, x*y)
			case And:
				return c.BV(w, x&y)
			case Or:
				return c.BV(w, x|y)
			case Xor:
				return c.BV(w, x^y)
			case UDiv:
				if y != 0 {
					return c.BV(w, x/y)
				}
			case URem:
				if y != 0 {
					return c.BV(w, x%y)
				}
			case SDiv:
				if y != 0 {
					sx, sy := SignExt64(x, w), SignExt64(y, w)
					if sy == -1 {
						return c.BV(w, uint64(-sx))
					}
					return c.BV(w, uint64(sx/sy))
				}
			case SRem:
				if y != 0 {
					sx, sy := SignExt64(x, w), SignExt64(y, w)
					if sy == -1 {
						return c.BV(w, 0)
					}
					return c.BV(w, uint64(sx%sy))
				}
			case Shl:
				if y >= uint64(w) {
					return c.BV(w, 0)
				}
				return c.BV(w, x<<y)
			case LShr:
				if y >= uint64(w) {
					return c.BV(w, 0)
				}
				return c.BV(w, x>>y)
			case AShr:
				sx := SignExt64(x, w)
				if y >= uint64(w) {
					y = uint64(w - 1)
				}
				return c.BV(w, uint64(sx>>y))
			}
		}
	}
	// identities
	isZero := func(t *T) bool { return t.IsConst() && t.Big == nil && t.K == 0 }
	isOne := func(t *T) bool { return t.IsConst() && t.Big == nil && t.K == 1 }
	isOnes := func(t *T) bool { return t.IsConst() && t.Big == nil && w <= 64 && t.K == mask(w) }
	switch op {
	case Add, Or, Xor:
		if isZero(a) {
			return b
		}
		if isZero(b) {
			return a
		}
		if op == Or && a == b {
			return a
		}
		if op == Xor && a == b {
			return c.BV(w, 0)
		}
	case Sub:
		if isZero(b) {
			return a
		}
		if a == b {
			return c.BV(w, 0)
		}
	case Mul:
		if isZero(a) || isZero(b) {
			return c.BV(w, 0)
		}
		if isOne(a) {
			return b
		}
		if isOne(b) {
			return a
		}
	case And:
		if isZero(a) || isZero(b) {
			return c.BV(w, 0)
		}
		if isOnes(a) {
			return b
		}
		if isOnes(b) {
			return a
		}
		if a == b {
			return a
		}
		if w <= 64 && b.IsConst() && b.K&(b.K+1) == 0 && UBound(a, 8) <= b.K {
			return a // masking with 2^k-1 a value already below 2^k
		}
		if w <= 64 && a.IsConst() && a.K&(a.K+1) == 0 && UBound(b, 8) <= a.K {
			return b
		}
	case Shl, LShr, AShr:
		if isZero(b) {
			return a
		}
		if isZero(a) {
			return a
		}
		if b.IsConst() && b.Big == nil && b.K >= uint64(w) && op != AShr {
			return c.BV(w, 0)
		}
		if op == AShr && w <= 64 && UBound(a, 8) < uint64(1)<<(w-1) {
			op = LShr // the sign bit is known to be clear
		}
	case UDiv, SDiv:
		if isOne(b) {
			return a
		}
	}
	// canonical order for commutative operators: constant last
	switch op {
	case Add, Mul, And, Or, Xor:
		if a.IsConst() && !b.IsConst() {
			a, b = b, a
		} else if !a.IsConst() && !b.IsConst() && a.ID > b.ID {
			a, b = b, a
		}
	}
	return c.mk(T{Op: op, W: w, A: []*T{a, b}})
}

func (c *Ctx) NotBV(a *T) *T {
	if a.IsConst() && a.W <= 64 {
		return c.BV(a.W, ^a.K)
	}
	if a.Op == Not {
		return a.A[0]
	}
	return c.mk(T{Op: Not, W: a.W, A: []*T{a}})
}

func (c *Ctx) NegBV(a *T) *T {
	if a.IsConst() && a.W <= 64 {
		return c.BV(a.W, -a.K)
	}
	return c.mk(T{Op: Neg, W: a.W, A: []*T{a}})
}

// ---- comparisons

func (c *Ctx) Cmp(op Op, a, b *T) *T {
	if a.W != b.W {
		panic(fmt.Sprintf("term: compare %s on sorts %d,%d", opNames[op], a.W, b.W))
	}
	if a.IsConst() && b.IsConst() {
		if a.W == SortInt || a.W > 64 {
			x, y := a.ConstBig(), b.ConstBig()
			switch op {
			case Eq:
				return c.Bool(x.Cmp(y) == 0)
			case Ult, ILt:
				return c.Bool(x.Cmp(y) < 0)
			case Ule, ILe:
				return c.Bool(x.Cmp(y) <= 0)
			}
		} else {
			x, y := a.K, b.K
			w := a.W
			switch op {
			case Eq:
				return c.Bool(x == y)
			case Ult:
				return c.Bool(x < y)
			case Ule:
				return c.Bool(x <= y)
			case Slt:
				return c.Bool(SignExt64(x, w) < SignExt64(y, w))
			case Sle:
				return c.Bool(SignExt64(x, w) <= SignExt64(y, w))
			}
		}
	}
	// one side a constant, the other a tree of ites over constants (a table
	// lookup by a symbolic index): decided when every leaf agrees
	if a.W > 0 && a.W <= 64 {
		if r := c.cmpByLeaves(op, a, b); r != nil {
			return r
		}
	}
	// a cheap unsigned upper bound on one side settles many mask/shift guards
	// (index bounds after "& 31", ">> 59", "% n") without a solver call
	if a.W > 0 && a.W <= 64 {
		if r := c.cmpByBounds(op, a, b); r != nil {
			return r
		}
	}
	// (x | y) < 2^k  <=>  x < 2^k and y < 2^k   (the "both operands are small" idiom;
	// keeps such guards expressible in the integer rendering)
	if (op == Ult || op == Ule) && a.Op == Or && b.IsConst() && a.W > 0 {
		lim := new(big.Int).Set(b.ConstBig())
		if op == Ule {
			lim.Add(lim, big.NewInt(1))
		}
		if lim.Sign() > 0 && lim.BitLen() <= a.W && new(big.Int).And(lim, new(big.Int).Sub(lim, big.NewInt(1))).Sign() == 0 {
			k := c.BVBig(a.W, lim)
			return c.AndB(c.Cmp(Ult, a.A[0], k), c.Cmp(Ult, a.A[1], k))
		}
	}
	// push a comparison with a constant through an ite with constant arms
	if b.IsConst() && a.Op == Ite && constArms(a, 4) {
		return c.IteT(a.A[0], c.Cmp(op, a.A[1], b), c.Cmp(op, a.A[2], b))
	}
	if a.IsConst() && b.Op == Ite && constArms(b, 4) {
		return c.IteT(b.A[0], c.Cmp(op, a, b.A[1]), c.Cmp(op, a, b.A[2]))
	}
	if a == b {
		switch op {
		case Eq, Ule, Sle, ILe:
			return c.True()
		case Ult, Slt, ILt:
			return c.False()
		}
	}
	if op == Eq && a.Op == UF && b.Op == UF && strings.HasPrefix(a.Name, "inj:") && strings.HasPrefix(b.Name, "inj:") &&
		strings.SplitN(a.Name, ":", 3)[1] == strings.SplitN(b.Name, ":", 3)[1] {
		// members of an injective family (the stated collision-freeness
		// assumption): equal results <=> same member and equal arguments
		if a.Name != b.Name || len(a.A) != len(b.A) {
			return c.False()
		}
		r := c.True()
		for k := range a.A {
			r = c.AndB(r, c.Cmp(Eq, a.A[k], b.A[k]))
		}
		return r
	}
	if op == Eq {
		if a.W == 0 { // Bool equality
			if a.IsConst() {
				a, b = b, a
			}
			if b.IsTrue() {
				return a
			}
			if b.IsFalse() {
				return c.NotB(a)
			}
		}
		if a.ID > b.ID && !b.IsConst() || a.IsConst() {
			a, b = b, a
		}
	}
	return c.mk(T{Op: op, W: 0, A: []*T{a, b}})
}

func (c *Ctx) EqT(a, b *T) *T { return c.Cmp(Eq, a, b) }

// UBound returns an unsigned upper bound of a bit-vector term of width <= 64
// (the all-ones mask when nothing better is known).
func UBound(t *T, depth int) uint64 {
	if t.W <= 0 || t.W > 64 {
		return ^uint64(0)
	}
	return min(t.PO, ubound0(t, depth))
}

func ubound0(t *T, depth int) uint64 {
	m := mask(t.W)
	if t.Op == Const {
		return t.K
	}
	if depth <= 0 {
		return m
	}
	pow2 := func(x uint64) uint64 { // smallest 2^k-1 >= x
		r := uint64(0)
		for r < x {
			r = r<<1 | 1
		}
		return r
	}
	switch t.Op {
	case And:
		return min(UBound(t.A[0], depth-1), UBound(t.A[1], depth-1))
	case Or, Xor:
		return min(m, pow2(max(UBound(t.A[0], depth-1), UBound(t.A[1], depth-1))))
	case LShr:
		if t.A[1].Op == Const {
			if t.A[1].K >= 64 {
				return 0
			}
			return UBound(t.A[0], depth-1) >> t.A[1].K
		}
		return UBound(t.A[0], depth-1)
	case Shl:
		if t.A[1].Op == Const && t.A[1].K < 64 {
			if u := UBound(t.A[0], depth-1); u <= m>>t.A[1].K {
				return u << t.A[1].K
			}
		}
	case Add:
		ua, ub := UBound(t.A[0], depth-1), UBound(t.A[1], depth-1)
		if ua <= m && ub <= m-ua {
			return ua + ub
		}
	case AShr:
		u := UBound(t.A[0], depth-1)
		if u < uint64(1)<<(t.W-1) {
			if t.A[1].Op == Const {
				if t.A[1].K >= 64 {
					return 0
				}
				return u >> t.A[1].K
			}
			return u
		}
	case URem:
		if t.A[1].Op == Const && t.A[1].K > 0 {
			return min(t.A[1].K-1, UBound(t.A[0], depth-1))
		}
	case UDiv:
		if t.A[1].Op == Const && t.A[1].K > 0 {
			return UBound(t.A[0], depth-1) / t.A[1].K
		}
	case Ite:
		return max(UBound(t.A[1], depth-1), UBound(t.A[2], depth-1))
	case ZExt:
		return UBound(t.A[0], depth-1)
	case Extract:
		if t.P2 == 0 {
			return min(m, UBound(t.A[0], depth-1))
		}
	}
	return m
}

// tablePred recognises a Boolean combination of comparisons between one
// constant-table lookup (see AsTable) and constants; truth[j] is its value
// when the index is j.
func (c *Ctx) tablePred(t *T, depth int) (x *T, truth []bool, ok bool) {
	if depth == 0 {
		return nil, nil, false
	}
	switch t.Op {
	case BNot:
		x, tr, ok := c.tablePred(t.A[0], depth-1)
		if !ok {
			return nil, nil, false
		}
		out := make([]bool, len(tr))
		for j, v := range tr {
			out[j] = !v
		}
		return x, out, true
	case BAnd, BOr:
		x1, t1, ok1 := c.tablePred(t.A[0], depth-1)
		if !ok1 {
			return nil, nil, false
		}
		x2, t2, ok2 := c.tablePred(t.A[1], depth-1)
		if !ok2 || x1 != x2 || len(t1) != len(t2) {
			return nil, nil, false
		}
		out := make([]bool, len(t1))
		for j := range t1 {
			if t.Op == BAnd {
				out[j] = t1[j] && t2[j]
			} else {
				out[j] = t1[j] || t2[j]
			}
		}
		return x1, out, true
	case Eq, Ult, Ule, Slt, Sle:
		a, b := t.A[0], t.A[1]
		var tree, k *T
		flip := false
		switch {
		case b.IsConst() && b.Big == nil && a.Op == Ite:
			tree, k = a, b
		case a.IsConst() && a.Big == nil && b.Op == Ite:
			tree, k, flip = b, a, true
		default:
			return nil, nil, false
		}
		x, vals, ok := AsTable(tree)
		if !ok {
			return nil, nil, false
		}
		out := make([]bool, len(vals))
		for j, v := range vals {
			l, r := c.BV(tree.W, v), k
			if flip {
				l, r = r, l
			}
			out[j] = c.Cmp(t.Op, l, r).IsTrue()
		}
		return x, out, true
	}
	return nil, nil, false
}

// tableFold decides a conjunction/disjunction of table predicates over the
// same index when it is constant over the whole table.
func (c *Ctx) tableFold(op Op, a, b *T) *T {
	cmpLike := func(t *T) bool {
		switch t.Op {
		case Eq, Ult, Ule, Slt, Sle, BNot, BAnd, BOr:
			return true
		}
		return false
	}
	if !cmpLike(a) || !cmpLike(b) {
		return nil
	}
	x1, t1, ok := c.tablePred(a, 4)
	if !ok {
		return nil
	}
	x2, t2, ok := c.tablePred(b, 4)
	if !ok || x1 != x2 || len(t1) != len(t2) {
		return nil
	}
	nt := 0
	for j := range t1 {
		v := t1[j] && t2[j]
		if op == BOr {
			v = t1[j] || t2[j]
		}
		if v {
			nt++
		}
	}
	if nt == 0 {
		return c.False()
	}
	if nt == len(t1) {
		return c.True()
	}
	return nil
}

// AsTable recognises a lookup of a constant table by a symbolic index: an ite
// spine ite(x==j0, v0, ite(x==j1, v1, ... vLast)) with constant leaves, where
// x is a bit-vector whose upper bound is small.  vals[j] is the value for
// x == j, for every j in 0..UBound(x).
func AsTable(t *T) (x *T, vals []uint64, ok bool) {
	if t.Op != Ite || t.W <= 0 || t.W > 64 {
		return nil, nil, false
	}
	byIdx := map[uint64]uint64{}
	for n := 0; t.Op == Ite; n++ {
		g := t.A[0]
		if n > 256 || g.Op != Eq || !g.A[1].IsConst() || g.A[1].Big != nil || g.A[0].W <= 0 || g.A[0].W > 64 {
			return nil, nil, false
		}
		if x == nil {
			x = g.A[0]
		} else if x != g.A[0] {
			return nil, nil, false
		}
		if t.A[1].Op != Const || t.A[1].Big != nil {
			return nil, nil, false
		}
		if _, dup := byIdx[g.A[1].K]; !dup {
			byIdx[g.A[1].K] = t.A[1].K
		}
		t = t.A[2]
	}
	if t.Op != Const || t.Big != nil {
		return nil, nil, false
	}
	ub := UBound(x, 8)
	if ub > 255 {
		return nil, nil, false
	}
	vals = make([]uint64, ub+1)
	for j := range vals {
		if v, has := byIdx[uint64(j)]; has {
			vals[j] = v
		} else {
			vals[j] = t.K
		}
	}
	return x, vals, true
}

// TableT builds the lookup vals[x] (width w) for an index x known to be
// below len(vals); the identity table is x itself.
func (c *Ctx) TableT(x *T, vals []uint64, w int) *T {
	ident, same := true, true
	for j, v := range vals {
		if v != uint64(j) {
			ident = false
		}
		if v != vals[0] {
			same = false
		}
	}
	if same {
		return c.BV(w, vals[0])
	}
	if ident {
		switch {
		case x.W == w:
			return x
		case x.W < w:
			return c.ZExtT(x, w)
		default:
			return c.ExtractT(x, w-1, 0)
		}
	}
	r := c.BV(w, vals[len(vals)-1])
	for j := len(vals) - 2; j >= 0; j-- {
		r = c.IteT(c.EqT(x, c.BV(x.W, uint64(j))), c.BV(w, vals[j]), r)
	}
	return r
}

// constLeaves collects the distinct constant leaves of an ite tree (nil if a
// leaf is not constant or there are more than limit distinct ite nodes).
func constLeaves(t *T, seen map[*T]bool, out map[uint64]bool) bool {
	for t.Op == Ite {
		if seen[t] {
			return true
		}
		seen[t] = true
		if len(seen) > 256 {
			return false
		}
		if !constLeaves(t.A[1], seen, out) {
			return false
		}
		t = t.A[2]
	}
	if t.Op != Const || t.Big != nil {
		return false
	}
	out[t.K] = true
	return true
}

func (c *Ctx) cmpByLeaves(op Op, a, b *T) *T {
	var tree, k *T
	flip := false
	switch {
	case b.IsConst() && a.Op == Ite:
		tree, k = a, b
	case a.IsConst() && b.Op == Ite:
		tree, k, flip = b, a, true
	default:
		return nil
	}
	if x, vals, ok := AsTable(tree); ok {
		// a table lookup compared with a constant is a condition on the index
		var hit []int
		for j, v := range vals {
			l, r := c.BV(tree.W, v), k
			if flip {
				l, r = r, l
			}
			if c.Cmp(op, l, r).IsTrue() {
				hit = append(hit, j)
			}
		}
		switch {
		case len(hit) == 0:
			return c.False()
		case len(hit) == len(vals):
			return c.True()
		case len(hit) <= 4:
			r := c.False()
			for _, j := range hit {
				r = c.OrB(r, c.EqT(x, c.BV(x.W, uint64(j))))
			}
			return r
		case len(vals)-len(hit) <= 4:
			r := c.True()
			isHit := map[int]bool{}
			for _, j := range hit {
				isHit[j] = true
			}
			for j := range vals {
				if !isHit[j] {
					r = c.AndB(r, c.NotB(c.EqT(x, c.BV(x.W, uint64(j)))))
				}
			}
			return r
		}
		return nil
	}
	leaves := map[uint64]bool{}
	if !constLeaves(tree, map[*T]bool{}, leaves) {
		return nil
	}
	nt, nf := 0, 0
	for v := range leaves {
		x, y := c.BV(tree.W, v), k
		if flip {
			x, y = y, x
		}
		if c.Cmp(op, x, y).IsTrue() {
			nt++
		} else {
			nf++
		}
	}
	if nf == 0 {
		return c.True()
	}
	if nt == 0 {
		return c.False()
	}
	if op == Eq {
		// table[i] == k: push the comparison to the leaves, which leaves a
		// condition on the index alone
		memo := map[*T]*T{}
		var push func(t *T) *T
		push = func(t *T) *T {
			if t.Op != Ite {
				return c.Bool(t.K == k.K)
			}
			if r, ok := memo[t]; ok {
				return r
			}
			r := c.IteT(t.A[0], push(t.A[1]), push(t.A[2]))
			memo[t] = r
			return r
		}
		return push(tree)
	}
	return nil
}

func (c *Ctx) cmpByBounds(op Op, a, b *T) *T {
	half := uint64(1) << (a.W - 1)
	if b.IsConst() {
		ua := UBound(a, 8)
		if ua == mask(a.W) {
			return nil
		}
		switch op {
		case Ult:
			if ua < b.K {
				return c.True()
			}
		case Ule:
			if ua <= b.K {
				return c.True()
			}
		case Slt:
			if ua < half && b.K == 0 {
				return c.False() // a is non-negative
			}
			if ua < half && b.K < half && ua < b.K {
				return c.True()
			}
			if ua < half && b.K >= half { // b negative, a non-negative
				return c.False()
			}
		case Sle:
			if ua < half && b.K < half && ua <= b.K {
				return c.True()
			}
			if ua < half && b.K >= half {
				return c.False()
			}
		case Eq:
			if ua < b.K {
				return c.False()
			}
		}
		return nil
	}
	if a.IsConst() {
		ub := UBound(b, 8)
		if ub == mask(b.W) {
			return nil
		}
		switch op {
		case Ult:
			if ub <= a.K {
				return c.False()
			}
		case Ule:
			if ub < a.K {
				return c.False()
			}
		case Slt:
			if ub < half && a.K < half && ub <= a.K {
				return c.False()
			}
			if ub < half && a.K >= half { // a negative, b non-negative
				return c.True()
			}
		case Sle:
			if ub < half && a.K == 0 {
				return c.True() // b is non-negative
			}
			if ub < half && a.K < half && ub < a.K {
				return c.False()
			}
			if ub < half && a.K >= half {
				return c.True()
			}
		case Eq:
			if ub < a.K {
				return c.False()
			}
		}
	}
	return nil
}

// constArms reports whether t is a (nested, depth-limited) ite whose leaves are constants.
func constArms(t *T, depth int) bool {
	if t.IsConst() {
		return true
	}
	if t.Op != Ite || depth == 0 {
		return false
	}
	return constArms(t.A[1], depth-1) && constArms(t.A[2], depth-1)
}

// ---- booleans

func (c *Ctx) NotB(a *T) *T {
	if a.W != 0 {
		panic("term: not on non-bool")
	}
	if a.IsConst() {
		return c.Bool(a.K == 0)
	}
	if a.Op == BNot {
		return a.A[0]
	}
	return c.mk(T{Op: BNot, W: 0, A: []*T{a}})
}

func (c *Ctx) AndB(a, b *T) *T {
	if a.IsFalse() || b.IsFalse() {
		return c.False()
	}
	if a.IsTrue() {
		return b
	}
	if b.IsTrue() {
		return a
	}
	if a == b {
		return a
	}
	if r := c.tableFold(BAnd, a, b); r != nil {
		return r
	}
	if a.ID > b.ID {
		a, b = b, a
	}
	return c.mk(T{Op: BAnd, W: 0, A: []*T{a, b}})
}

func (c *Ctx) OrB(a, b *T) *T {
	if a.IsTrue() || b.IsTrue() {
		return c.True()
	}
	if a.IsFalse() {
		return b
	}
	if b.IsFalse() {
		return a
	}
	if a == b {
		return a
	}
	if r := c.tableFold(BOr, a, b); r != nil {
		return r
	}
	if a.ID > b.ID {
		a, b = b, a
	}
	return c.mk(T{Op: BOr, W: 0, A: []*T{a, b}})
}

func (c *Ctx) Implies(a, b *T) *T { return c.OrB(c.NotB(a), b) }

func (c *Ctx) IteT(g, a, b *T) *T {
	if g.W != 0 || a.W != b.W {
		panic(fmt.Sprintf("term: ite sorts %d ? %d : %d", g.W, a.W, b.W))
	}
	if g.IsTrue() {
		return a
	}
	if g.IsFalse() {
		return b
	}
	if a == b {
		return a
	}
	if c.XorNF && a.W > 0 && a.W <= 64 {
		if r := c.nfIte(g, a, b); r != nil {
			return r
		}
	}
	if a.W == 0 {
		if a.IsTrue() && b.IsFalse() {
			return g
		}
		if a.IsFalse() && b.IsTrue() {
			return c.NotB(g)
		}
		if a.IsTrue() {
			return c.OrB(g, b)
		}
		if b.IsFalse() {
			return c.AndB(g, a)
		}
		if a.IsFalse() {
			return c.AndB(c.NotB(g), b)
		}
		if b.IsTrue() {
			return c.OrB(c.NotB(g), a)
		}
	}
	return c.mk(T{Op: Ite, W: a.W, A: []*T{g, a, b}})
}

// ---- width changes

func (c *Ctx) ExtractT(a *T, hi, lo int) *T {
	if hi < lo || hi >= a.W || lo < 0 {
		panic(fmt.Sprintf("term: extract [%d:%d] of width %d", hi, lo, a.W))
	}
	w := hi - lo + 1
	if w == a.W {
		return a
	}
	if a.IsConst() {
		if a.Big != nil {
			return c.BVBig(w, new(big.Int).Rsh(a.Big, uint(lo)))
		}
		return c.BV(w, a.K>>uint(lo))
	}
	switch a.Op {
	case Extract:
		return c.ExtractT(a.A[0], hi+a.P2, lo+a.P2)
	case Concat:
		lw := a.A[1].W
		if hi < lw {
			return c.ExtractT(a.A[1], hi, lo)
		}
		if lo >= lw {
			return c.ExtractT(a.A[0], hi-lw, lo-lw)
		}
	case ZExt:
		iw := a.A[0].W
		if hi < iw {
			return c.ExtractT(a.A[0], hi, lo)
		}
		if lo >= iw {
			return c.BV(w, 0)
		}
	case SExt:
		iw := a.A[0].W
		if hi < iw {
			return c.ExtractT(a.A[0], hi, lo)
		}
	}
	if c.XorNF && lo == 0 && a.W <= 64 {
		if r := c.nfExtract(a, hi); r != nil {
			return r
		}
	}
	return c.mk(T{Op: Extract, W: w, A: []*T{a}, P1: hi, P2: lo})
}

func (c *Ctx) ConcatT(hi, lo *T) *T {
	w := hi.W + lo.W
	if hi.IsConst() && lo.IsConst() {
		v := new(big.Int).Lsh(hi.ConstBig(), uint(lo.W))
		v.Or(v, lo.ConstBig())
		return c.BVBig(w, v)
	}
	if hi.IsConst() && hi.Big == nil && hi.K == 0 {
		return c.ZExtT(lo, w)
	}
	// concat(extract(x,h,m+1), extract(x,m,l)) = extract(x,h,l)
	if hi.Op == Extract && lo.Op == Extract && hi.A[0] == lo.A[0] && hi.P2 == lo.P1+1 {
		return c.ExtractT(hi.A[0], hi.P1, lo.P2)
	}
	return c.mk(T{Op: Concat, W: w, A: []*T{hi, lo}})
}

func (c *Ctx) ZExtT(a *T, w int) *T {
	if w == a.W {
		return a
	}
	if w < a.W {
		return c.ExtractT(a, w-1, 0)
	}
	if a.IsConst() {
		return c.BVBig(w, a.ConstBig())
	}
	if a.Op == ZExt {
		return c.ZExtT(a.A[0], w)
	}
	if c.XorNF && w <= 64 {
		if r := c.nfZExt(a, w); r != nil {
			return r
		}
	}
	return c.mk(T{Op: ZExt, W: w, A: []*T{a}, P1: w - a.W})
}

func (c *Ctx) SExtT(a *T, w int) *T {
	if w == a.W {
		return a
	}
	if w < a.W {
		return c.ExtractT(a, w-1, 0)
	}
	if a.IsConst() && a.W <= 64 {
		s := SignExt64(a.K, a.W)
		if w <= 64 {
			return c.BV(w, uint64(s))
		}
		return c.BVBig(w, big.NewInt(s))
	}
	return c.mk(T{Op: SExt, W: w, A: []*T{a}, P1: w - a.W})
}

// ---- Int sort

func (c *Ctx) IBin(op Op, a, b *T) *T {
	if a.W != SortInt || b.W != SortInt {
		panic("term: int op on non-int")
	}
	if a.IsConst() && b.IsConst() {
		r := new(big.Int)
		switch op {
		case IAdd:
			return c.Int(r.Add(a.Big, b.Big))
		case ISub:
			return c.Int(r.Sub(a.Big, b.Big))
		case IMul:
			return c.Int(r.Mul(a.Big, b.Big))
		case IDiv:
			if b.Big.Sign() != 0 {
				return c.Int(r.Div(a.Big, b.Big))
			}
		case IMod:
			if b.Big.Sign() != 0 {
				return c.Int(r.Mod(a.Big, b.Big))
			}
		}
	}
	return c.mk(T{Op: op, W: SortInt, A: []*T{a, b}})
}

func (c *Ctx) INegT(a *T) *T {
	if a.IsConst() {
		return c.Int(new(big.Int).Neg(a.Big))
	}
	return c.mk(T{Op: INeg, W: SortInt, A: []*T{a}})
}

func (c *Ctx) BV2Int(a *T, signed bool) *T {
	if a.IsConst() {
		v := a.ConstBig()
		if signed && v.Bit(a.W-1) == 1 {
			v.Sub(v, new(big.Int).Lsh(big.NewInt(1), uint(a.W)))
		}
		return c.Int(v)
	}
	if a.Op == SExt && signed {
		return c.BV2Int(a.A[0], true)
	}
	if a.Op == ZExt {
		return c.BV2Int(a.A[0], false)
	}
	if signed {
		return c.mk(T{Op: BV2IntS, W: SortInt, A: []*T{a}})
	}
	return c.mk(T{Op: BV2IntU, W: SortInt, A: []*T{a}})
}

func (c *Ctx) Int2BVT(a *T, w int) *T {
	if a.IsConst() {
		return c.BVBig(w, a.Big)
	}
	if (a.Op == BV2IntU || a.Op == BV2IntS) && a.A[0].W == w {
		return a.A[0]
	}
	return c.mk(T{Op: Int2BV, W: w, A: []*T{a}, P1: w})
}

// ---- uninterpreted functions and raw SMT fragments

// UFApp applies the uninterpreted function name (result sort w) to args.
func (c *Ctx) UFApp(name string, w int, args ...*T) *T {
	return c.mk(T{Op: UF, W: w, Name: name, A: args})
}

// RawT is an SMT-LIB fragment with %0, %1 ... placeholders for the arguments;
// it is only meaningful in the bit-vector rendering.
func (c *Ctx) RawT(tmpl string, w int, args ...*T) *T {
	return c.mk(T{Op: Raw, W: w, Name: tmpl, A: args})
}

// Len64 is bits.Len64 as an ite chain.
func (c *Ctx) Len64(x *T) *T {
	w := x.W
	if x.IsConst() && w <= 64 {
		return c.BV(64, uint64(bits.Len64(x.K)))
	}
	r := c.BV(64, 0)
	for i := 0; i < w; i++ {
		// if x >= 2^i then at least i+1
		r = c.IteT(c.Cmp(Ule, c.BV(w, uint64(1)<<uint(i)), x), c.BV(64, uint64(i+1)), r)
	}
	return r
}

// Size returns the number of distinct nodes reachable from t.
func Size(t *T) int {
	seen := map[int]bool{}
	var f func(*T)
	f = func(t *T) {
		if seen[t.ID] {
			return
		}
		seen[t.ID] = true
		for _, a := range t.A {
			f(a)
		}
	}
	f(t)
	return len(seen)
}

// Eval evaluates t under a total assignment of its variables (for replay and
// for differential validation). UF and Raw are not evaluable.
func Eval(c *Ctx, t *T, env map[string]*big.Int) (*T, error) {
	memo := map[int]*T{}
	var f func(*T) (*T, error)
	f = func(t *T) (*T, error) {
		if r, ok := memo[t.ID]; ok {
			return r, nil
		}
		var r *T
		switch t.Op {
		case Const:
			r = t
		case Var:
			v, ok := env[t.Name]
			if !ok {
				return nil, fmt.Errorf("no value for %s", t.Name)
			}
			switch {
			case t.W == 0:
				r = c.Bool(v.Sign() != 0)
			case t.W == SortInt:
				r = c.Int(v)
			default:
				r = c.BVBig(t.W, v)
			}
		case UF, Raw:
			return nil, fmt.Errorf("cannot evaluate %s", opNames[t.Op])
		default:
			args := make([]*T, len(t.A))
			for i, a := range t.A {
				x, err := f(a)
				if err != nil {
					return nil, err
				}
				args[i] = x
			}
			r = c.Rebuild(t, args)
		}
		memo[t.ID] = r
		return r, nil
	}
	return f(t)
}

// Rebuild re-applies t's operator to new arguments (through the simplifier).
func (c *Ctx) Rebuild(t *T, a []*T) *T {
	switch t.Op {
	case Add, Sub, Mul, UDiv, SDiv, URem, SRem, And, Or, Xor, Shl, LShr, AShr:
		return c.Bin(t.Op, a[0], a[1])
	case Not:
		return c.NotBV(a[0])
	case Neg:
		return c.NegBV(a[0])
	case Eq, Ult, Ule, Slt, Sle, ILt, ILe:
		return c.Cmp(t.Op, a[0], a[1])
	case BAnd:
		return c.AndB(a[0], a[1])
	case BOr:
		return c.OrB(a[0], a[1])
	case BNot:
		return c.NotB(a[0])
	case Ite:
		return c.IteT(a[0], a[1], a[2])
	case Extract:
		return c.ExtractT(a[0], t.P1, t.P2)
	case Concat:
		return c.ConcatT(a[0], a[1])
	case ZExt:
		return c.ZExtT(a[0], t.W)
	case SExt:
		return c.SExtT(a[0], t.W)
	case IAdd, ISub, IMul, IDiv, IMod:
		return c.IBin(t.Op, a[0], a[1])
	case INeg:
		return c.INegT(a[0])
	case BV2IntU:
		return c.BV2Int(a[0], false)
	case BV2IntS:
		return c.BV2Int(a[0], true)
	case Int2BV:
		return c.Int2BVT(a[0], t.W)
	case UF:
		return c.UFApp(t.Name, t.W, a...)
	case Raw:
		return c.RawT(t.Name, t.W, a...)
	}
	panic("term: rebuild " + opNames[t.Op])
}
