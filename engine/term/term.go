// Package term is the hash-consed term DAG shared by the symbolic executor
// and the SMT printers (bit-vector rendering and integer rendering).
package term

import (
	"fmt"
	"math/big"
	"math/bits"
	"strings"
)

type Op uint8

const (
	Const Op = iota
	Var
	Add
	Sub
	Mul
	UDiv
	SDiv
	URem
	SRem
	And
	Or
	Xor
	Not
	Neg
	Shl
	LShr
	AShr
	Eq
	Ult
	Ule
	Slt
	Sle
	BAnd
	BOr
	BNot
	Ite
	Extract
	Concat
	ZExt
	SExt
	IAdd
	ISub
	IMul
	IDiv // euclidean (SMT div)
	IMod // euclidean (SMT mod)
	INeg
	ILt
	ILe
	BV2IntU
	BV2IntS
	Int2BV
	UF
	Raw
)

var opNames = map[Op]string{Const: "const", Var: "var", Add: "bvadd", Sub: "bvsub", Mul: "bvmul", UDiv: "bvudiv", SDiv: "bvsdiv",
	URem: "bvurem", SRem: "bvsrem", And: "bvand", Or: "bvor", Xor: "bvxor", Not: "bvnot", Neg: "bvneg", Shl: "bvshl", LShr: "bvlshr",
	AShr: "bvashr", Eq: "=", Ult: "bvult", Ule: "bvule", Slt: "bvslt", Sle: "bvsle", BAnd: "and", BOr: "or", BNot: "not", Ite: "ite",
	Extract: "extract", Concat: "concat", ZExt: "zero_extend", SExt: "sign_extend", IAdd: "+", ISub: "-", IMul: "*", IDiv: "div", IMod: "mod",
	INeg: "-", ILt: "<", ILe: "<=", BV2IntU: "bv2nat", BV2IntS: "bv2int_s", Int2BV: "int2bv", UF: "uf", Raw: "raw"}

// Sorts: W > 0 bit-vector of that width; W == 0 Bool; W == -1 Int.
const (
	SortBool = 0
	SortInt  = -1
)

type T struct {
	Op   Op
	W    int
	A    []*T
	K    uint64   // constant value (W in 1..64, or Bool 0/1)
	Big  *big.Int // constant value for Int sort or W > 64
	Name string   // Var / UF / Raw template
	P1   int      // extract hi / ext amount
	P2   int      // extract lo
	Sg   bool     // integer rendering: the term is represented by its signed value
	ID   int
}

func (t *T) IsConst() bool { return t.Op == Const }
func (t *T) IsTrue() bool  { return t.Op == Const && t.W == 0 && t.K == 1 }
func (t *T) IsFalse() bool { return t.Op == Const && t.W == 0 && t.K == 0 }

type key struct {
	op         Op
	w          int
	a0, a1, a2 int
	k          uint64
	name       string
	p1, p2     int
	sg         bool
}

type Ctx struct {
	tab   map[key]*T
	next  int
	Vars  []*T
	varBy map[string]*T
	NOps  int
	Hint  bool // signedness of the Go type of the value being built (integer rendering only)
}

func NewCtx() *Ctx {
	return &Ctx{tab: map[key]*T{}, varBy: map[string]*T{}}
}

func mask(w int) uint64 {
	if w >= 64 {
		return ^uint64(0)
	}
	return (uint64(1) << uint(w)) - 1
}

// SignExt64 interprets the low w bits of v as signed.
func SignExt64(v uint64, w int) int64 {
	if w >= 64 {
		return int64(v)
	}
	s := uint(64 - w)
	return int64(v<<s) >> s
}

func (c *Ctx) mk(t T) *T {
	if t.W > 0 {
		switch t.Op {
		case SExt, AShr, SDiv, SRem:
			t.Sg = true
		case Add, Sub, Mul, Neg, Not, Shl, Int2BV, Var, UF, Raw:
			t.Sg = c.Hint
		case Ite:
			if t.A[1].Op != Const {
				t.Sg = t.A[1].Sg
			} else {
				t.Sg = t.A[2].Sg
			}
		}
	}
	k := key{sg: t.Sg, op: t.Op, w: t.W, k: t.K, name: t.Name, p1: t.P1, p2: t.P2, a0: -1, a1: -1, a2: -1}
	switch len(t.A) {
	case 0:
	case 1:
		k.a0 = t.A[0].ID
	case 2:
		k.a0, k.a1 = t.A[0].ID, t.A[1].ID
	case 3:
		k.a0, k.a1, k.a2 = t.A[0].ID, t.A[1].ID, t.A[2].ID
	default:
		var sb strings.Builder
		sb.WriteString(t.Name)
		for _, a := range t.A {
			fmt.Fprintf(&sb, ",%d", a.ID)
		}
		k.name = sb.String()
	}
	if t.Big != nil {
		k.name = t.Big.String()
	}
	if r, ok := c.tab[k]; ok {
		return r
	}
	c.next++
	t.ID = c.next
	r := &t
	c.tab[k] = r
	c.NOps++
	return r
}

// ---- constants and variables

func (c *Ctx) BV(w int, v uint64) *T {
	if w > 64 {
		return c.BVBig(w, new(big.Int).SetUint64(v))
	}
	return c.mk(T{Op: Const, W: w, K: v & mask(w)})
}

func (c *Ctx) BVBig(w int, v *big.Int) *T {
	m := new(big.Int).Lsh(big.NewInt(1), uint(w))
	v = new(big.Int).Mod(v, m)
	if w <= 64 {
		return c.mk(T{Op: Const, W: w, K: v.Uint64()})
	}
	return c.mk(T{Op: Const, W: w, Big: v})
}

func (c *Ctx) Bool(b bool) *T {
	if b {
		return c.mk(T{Op: Const, W: 0, K: 1})
	}
	return c.mk(T{Op: Const, W: 0, K: 0})
}

func (c *Ctx) Int(v *big.Int) *T     { return c.mk(T{Op: Const, W: SortInt, Big: new(big.Int).Set(v)}) }
func (c *Ctx) IntI64(v int64) *T     { return c.Int(big.NewInt(v)) }
func (c *Ctx) True() *T              { return c.Bool(true) }
func (c *Ctx) False() *T             { return c.Bool(false) }
func (c *Ctx) LookupVar(n string) *T { return c.varBy[n] }

func (c *Ctx) NewVar(name string, w int) *T {
	if v, ok := c.varBy[name]; ok {
		if v.W != w {
			panic("term: variable " + name + " redeclared with another sort")
		}
		return v
	}
	v := c.mk(T{Op: Var, W: w, Name: name})
	c.varBy[name] = v
	c.Vars = append(c.Vars, v)
	return v
}

// ConstBig returns the value of a constant term as a big.Int (unsigned for BV).
func (t *T) ConstBig() *big.Int {
	if t.Big != nil {
		return new(big.Int).Set(t.Big)
	}
	return new(big.Int).SetUint64(t.K)
}

func (c *Ctx) wideBin(op Op, a, b *T) *T {
	x, y := a.ConstBig(), b.ConstBig()
	w := a.W
	r := new(big.Int)
	switch op {
	case Add:
		r.Add(x, y)
	case Sub:
		r.Sub(x, y)
	case Mul:
		r.Mul(x, y)
	case And:
		r.And(x, y)
	case Or:
		r.Or(x, y)
	case Xor:
		r.Xor(x, y)
	case Shl:
		if y.BitLen() > 16 || y.Uint64() >= uint64(w) {
			r.SetInt64(0)
		} else {
			r.Lsh(x, uint(y.Uint64()))
		}
	case LShr:
		if y.BitLen() > 16 || y.Uint64() >= uint64(w) {
			r.SetInt64(0)
		} else {
			r.Rsh(x, uint(y.Uint64()))
		}
	case UDiv:
		if y.Sign() == 0 {
			return nil
		}
		r.Quo(x, y)
	case URem:
		if y.Sign() == 0 {
			return nil
		}
		r.Rem(x, y)
	default:
		return nil
	}
	return c.BVBig(w, r)
}

// ---- bit-vector binary operators

func (c *Ctx) Bin(op Op, a, b *T) *T {
	if a.W != b.W || a.W <= 0 {
		panic(fmt.Sprintf("term: %s on sorts %d,%d", opNames[op], a.W, b.W))
	}
	w := a.W
	if a.IsConst() && b.IsConst() {
		if w > 64 {
			if r := c.wideBin(op, a, b); r != nil {
				return r
			}
		} else {
			x, y := a.K, b.K
			switch op {
			case Add:
				return c.BV(w, x+y)
			case Sub:
				return c.BV(w, x-y)
			case Mul:
				return c.BV(w, x*y)
			case And:
				return c.BV(w, x&y)
			case Or:
				return c.BV(w, x|y)
			case Xor:
				return c.BV(w, x^y)
			case UDiv:
				if y != 0 {
					return c.BV(w, x/y)
				}
			case URem:
				if y != 0 {
					return c.BV(w, x%y)
				}
			case SDiv:
				if y != 0 {
					sx, sy := SignExt64(x, w), SignExt64(y, w)
					if sy == -1 {
						return c.BV(w, uint64(-sx))
					}
					return c.BV(w, uint64(sx/sy))
				}
			case SRem:
				if y != 0 {
					sx, sy := SignExt64(x, w), SignExt64(y, w)
					if sy == -1 {
						return c.BV(w, 0)
					}
					return c.BV(w, uint64(sx%sy))
				}
			case Shl:
				if y >= uint64(w) {
					return c.BV(w, 0)
				}
				return c.BV(w, x<<y)
			case LShr:
				if y >= uint64(w) {
					return c.BV(w, 0)
				}
				return c.BV(w, x>>y)
			case AShr:
				sx := SignExt64(x, w)
				if y >= uint64(w) {
					y = uint64(w - 1)
				}
				return c.BV(w, uint64(sx>>y))
			}
		}
	}
	// identities
	isZero := func(t *T) bool { return t.IsConst() && t.Big == nil && t.K == 0 }
	isOne := func(t *T) bool { return t.IsConst() && t.Big == nil && t.K == 1 }
	isOnes := func(t *T) bool { return t.IsConst() && t.Big == nil && w <= 64 && t.K == mask(w) }
	switch op {
	case Add, Or, Xor:
		if isZero(a) {
			return b
		}
		if isZero(b) {
			return a
		}
		if op == Or && a == b {
			return a
		}
		if op == Xor && a == b {
			return c.BV(w, 0)
		}
	case Sub:
		if isZero(b) {
			return a
		}
		if a == b {
			return c.BV(w, 0)
		}
	case Mul:
		if isZero(a) || isZero(b) {
			return c.BV(w, 0)
		}
		if isOne(a) {
			return b
		}
		if isOne(b) {
			return a
		}
	case And:
		if isZero(a) || isZero(b) {
			return c.BV(w, 0)
		}
		if isOnes(a) {
			return b
		}
		if isOnes(b) {
			return a
		}
		if a == b {
			return a
		}
	case Shl, LShr, AShr:
		if isZero(b) {
			return a
		}
		if isZero(a) {
			return a
		}
		if b.IsConst() && b.Big == nil && b.K >= uint64(w) && op != AShr {
			return c.BV(w, 0)
		}
	case UDiv, SDiv:
		if isOne(b) {
			return a
		}
	}
	// canonical order for commutative operators: constant last
	switch op {
	case Add, Mul, And, Or, Xor:
		if a.IsConst() && !b.IsConst() {
			a, b = b, a
		} else if !a.IsConst() && !b.IsConst() && a.ID > b.ID {
			a, b = b, a
		}
	}
	return c.mk(T{Op: op, W: w, A: []*T{a, b}})
}

func (c *Ctx) NotBV(a *T) *T {
	if a.IsConst() && a.W <= 64 {
		return c.BV(a.W, ^a.K)
	}
	if a.Op == Not {
		return a.A[0]
	}
	return c.mk(T{Op: Not, W: a.W, A: []*T{a}})
}

func (c *Ctx) NegBV(a *T) *T {
	if a.IsConst() && a.W <= 64 {
		return c.BV(a.W, -a.K)
	}
	return c.mk(T{Op: Neg, W: a.W, A: []*T{a}})
}

// ---- comparisons

func (c *Ctx) Cmp(op Op, a, b *T) *T {
	if a.W != b.W {
		panic(fmt.Sprintf("term: compare %s on sorts %d,%d", opNames[op], a.W, b.W))
	}
	if a.IsConst() && b.IsConst() {
		if a.W == SortInt || a.W > 64 {
			x, y := a.ConstBig(), b.ConstBig()
			switch op {
			case Eq:
				return c.Bool(x.Cmp(y) == 0)
			case Ult, ILt:
				return c.Bool(x.Cmp(y) < 0)
			case Ule, ILe:
				return c.Bool(x.Cmp(y) <= 0)
			}
		} else {
			x, y := a.K, b.K
			w := a.W
			switch op {
			case Eq:
				return c.Bool(x == y)
			case Ult:
				return c.Bool(x < y)
			case Ule:
				return c.Bool(x <= y)
			case Slt:
				return c.Bool(SignExt64(x, w) < SignExt64(y, w))
			case Sle:
				return c.Bool(SignExt64(x, w) <= SignExt64(y, w))
			}
		}
	}
	// (x | y) < 2^k  <=>  x < 2^k and y < 2^k   (the "both operands are small" idiom;
	// keeps such guards expressible in the integer rendering)
	if (op == Ult || op == Ule) && a.Op == Or && b.IsConst() && a.W > 0 {
		lim := new(big.Int).Set(b.ConstBig())
		if op == Ule {
			lim.Add(lim, big.NewInt(1))
		}
		if lim.Sign() > 0 && lim.BitLen() <= a.W && new(big.Int).And(lim, new(big.Int).Sub(lim, big.NewInt(1))).Sign() == 0 {
			k := c.BVBig(a.W, lim)
			return c.AndB(c.Cmp(Ult, a.A[0], k), c.Cmp(Ult, a.A[1], k))
		}
	}
	// push a comparison with a constant through an ite with constant arms
	if b.IsConst() && a.Op == Ite && constArms(a, 4) {
		return c.IteT(a.A[0], c.Cmp(op, a.A[1], b), c.Cmp(op, a.A[2], b))
	}
	if a.IsConst() && b.Op == Ite && constArms(b, 4) {
		return c.IteT(b.A[0], c.Cmp(op, a, b.A[1]), c.Cmp(op, a, b.A[2]))
	}
	if a == b {
		switch op {
		case Eq, Ule, Sle, ILe:
			return c.True()
		case Ult, Slt, ILt:
			return c.False()
		}
	}
	if op == Eq && a.Op == UF && b.Op == UF && strings.HasPrefix(a.Name, "inj:") && strings.HasPrefix(b.Name, "inj:") &&
		strings.SplitN(a.Name, ":", 3)[1] == strings.SplitN(b.Name, ":", 3)[1] {
		// members of an injective family (the stated collision-freeness
		// assumption): equal results <=> same member and equal arguments
		if a.Name != b.Name || len(a.A) != len(b.A) {
			return c.False()
		}
		r := c.True()
		for k := range a.A {
			r = c.AndB(r, c.Cmp(Eq, a.A[k], b.A[k]))
		}
		return r
	}
	if op == Eq {
		if a.W == 0 { // Bool equality
			if a.IsConst() {
				a, b = b, a
			}
			if b.IsTrue() {
				return a
			}
			if b.IsFalse() {
				return c.NotB(a)
			}
		}
		if a.ID > b.ID && !b.IsConst() || a.IsConst() {
			a, b = b, a
		}
	}
	return c.mk(T{Op: op, W: 0, A: []*T{a, b}})
}

func (c *Ctx) EqT(a, b *T) *T { return c.Cmp(Eq, a, b) }

// constArms reports whether t is a (nested, depth-limited) ite whose leaves are constants.
func constArms(t *T, depth int) bool {
	if t.IsConst() {
		return true
	}
	if t.Op != Ite || depth == 0 {
		return false
	}
	return constArms(t.A[1], depth-1) && constArms(t.A[2], depth-1)
}

// ---- booleans

func (c *Ctx) NotB(a *T) *T {
	if a.W != 0 {
		panic("term: not on non-bool")
	}
	if a.IsConst() {
		return c.Bool(a.K == 0)
	}
	if a.Op == BNot {
		return a.A[0]
	}
	return c.mk(T{Op: BNot, W: 0, A: []*T{a}})
}

func (c *Ctx) AndB(a, b *T) *T {
	if a.IsFalse() || b.IsFalse() {
		return c.False()
	}
	if a.IsTrue() {
		return b
	}
	if b.IsTrue() {
		return a
	}
	if a == b {
		return a
	}
	if a.ID > b.ID {
		a, b = b, a
	}
	return c.mk(T{Op: BAnd, W: 0, A: []*T{a, b}})
}

func (c *Ctx) OrB(a, b *T) *T {
	if a.IsTrue() || b.IsTrue() {
		return c.True()
	}
	if a.IsFalse() {
		return b
	}
	if b.IsFalse() {
		return a
	}
	if a == b {
		return a
	}
	if a.ID > b.ID {
		a, b = b, a
	}
	return c.mk(T{Op: BOr, W: 0, A: []*T{a, b}})
}

func (c *Ctx) Implies(a, b *T) *T { return c.OrB(c.NotB(a), b) }

func (c *Ctx) IteT(g, a, b *T) *T {
	if g.W != 0 || a.W != b.W {
		panic(fmt.Sprintf("term: ite sorts %d ? %d : %d", g.W, a.W, b.W))
	}
	if g.IsTrue() {
		return a
	}
	if g.IsFalse() {
		return b
	}
	if a == b {
		return a
	}
	if a.W == 0 {
		if a.IsTrue() && b.IsFalse() {
			return g
		}
		if a.IsFalse() && b.IsTrue() {
			return c.NotB(g)
		}
		if a.IsTrue() {
			return c.OrB(g, b)
		}
		if b.IsFalse() {
			return c.AndB(g, a)
		}
	}
	return c.mk(T{Op: Ite, W: a.W, A: []*T{g, a, b}})
}

// ---- width changes

func (c *Ctx) ExtractT(a *T, hi, lo int) *T {
	if hi < lo || hi >= a.W || lo < 0 {
		panic(fmt.Sprintf("term: extract [%d:%d] of width %d", hi, lo, a.W))
	}
	w := hi - lo + 1
	if w == a.W {
		return a
	}
	if a.IsConst() {
		if a.Big != nil {
			return c.BVBig(w, new(big.Int).Rsh(a.Big, uint(lo)))
		}
		return c.BV(w, a.K>>uint(lo))
	}
	switch a.Op {
	case Extract:
		return c.ExtractT(a.A[0], hi+a.P2, lo+a.P2)
	case Concat:
		lw := a.A[1].W
		if hi < lw {
			return c.ExtractT(a.A[1], hi, lo)
		}
		if lo >= lw {
			return c.ExtractT(a.A[0], hi-lw, lo-lw)
		}
	case ZExt:
		iw := a.A[0].W
		if hi < iw {
			return c.ExtractT(a.A[0], hi, lo)
		}
		if lo >= iw {
			return c.BV(w, 0)
		}
	case SExt:
		iw := a.A[0].W
		if hi < iw {
			return c.ExtractT(a.A[0], hi, lo)
		}
	}
	return c.mk(T{Op: Extract, W: w, A: []*T{a}, P1: hi, P2: lo})
}

func (c *Ctx) ConcatT(hi, lo *T) *T {
	w := hi.W + lo.W
	if hi.IsConst() && lo.IsConst() {
		v := new(big.Int).Lsh(hi.ConstBig(), uint(lo.W))
		v.Or(v, lo.ConstBig())
		return c.BVBig(w, v)
	}
	if hi.IsConst() && hi.Big == nil && hi.K == 0 {
		return c.ZExtT(lo, w)
	}
	// concat(extract(x,h,m+1), extract(x,m,l)) = extract(x,h,l)
	if hi.Op == Extract && lo.Op == Extract && hi.A[0] == lo.A[0] && hi.P2 == lo.P1+1 {
		return c.ExtractT(hi.A[0], hi.P1, lo.P2)
	}
	return c.mk(T{Op: Concat, W: w, A: []*T{hi, lo}})
}

func (c *Ctx) ZExtT(a *T, w int) *T {
	if w == a.W {
		return a
	}
	if w < a.W {
		return c.ExtractT(a, w-1, 0)
	}
	if a.IsConst() {
		return c.BVBig(w, a.ConstBig())
	}
	if a.Op == ZExt {
		return c.ZExtT(a.A[0], w)
	}
	return c.mk(T{Op: ZExt, W: w, A: []*T{a}, P1: w - a.W})
}

func (c *Ctx) SExtT(a *T, w int) *T {
	if w == a.W {
		return a
	}
	if w < a.W {
		return c.ExtractT(a, w-1, 0)
	}
	if a.IsConst() && a.W <= 64 {
		s := SignExt64(a.K, a.W)
		if w <= 64 {
			return c.BV(w, uint64(s))
		}
		return c.BVBig(w, big.NewInt(s))
	}
	return c.mk(T{Op: SExt, W: w, A: []*T{a}, P1: w - a.W})
}

// ---- Int sort

func (c *Ctx) IBin(op Op, a, b *T) *T {
	if a.W != SortInt || b.W != SortInt {
		panic("term: int op on non-int")
	}
	if a.IsConst() && b.IsConst() {
		r := new(big.Int)
		switch op {
		case IAdd:
			return c.Int(r.Add(a.Big, b.Big))
		case ISub:
			return c.Int(r.Sub(a.Big, b.Big))
		case IMul:
			return c.Int(r.Mul(a.Big, b.Big))
		case IDiv:
			if b.Big.Sign() != 0 {
				return c.Int(r.Div(a.Big, b.Big))
			}
		case IMod:
			if b.Big.Sign() != 0 {
				return c.Int(r.Mod(a.Big, b.Big))
			}
		}
	}
	return c.mk(T{Op: op, W: SortInt, A: []*T{a, b}})
}

func (c *Ctx) INegT(a *T) *T {
	if a.IsConst() {
		return c.Int(new(big.Int).Neg(a.Big))
	}
	return c.mk(T{Op: INeg, W: SortInt, A: []*T{a}})
}

func (c *Ctx) BV2Int(a *T, signed bool) *T {
	if a.IsConst() {
		v := a.ConstBig()
		if signed && v.Bit(a.W-1) == 1 {
			v.Sub(v, new(big.Int).Lsh(big.NewInt(1), uint(a.W)))
		}
		return c.Int(v)
	}
	if a.Op == SExt && signed {
		return c.BV2Int(a.A[0], true)
	}
	if a.Op == ZExt {
		return c.BV2Int(a.A[0], false)
	}
	if signed {
		return c.mk(T{Op: BV2IntS, W: SortInt, A: []*T{a}})
	}
	return c.mk(T{Op: BV2IntU, W: SortInt, A: []*T{a}})
}

func (c *Ctx) Int2BVT(a *T, w int) *T {
	if a.IsConst() {
		return c.BVBig(w, a.Big)
	}
	if (a.Op == BV2IntU || a.Op == BV2IntS) && a.A[0].W == w {
		return a.A[0]
	}
	return c.mk(T{Op: Int2BV, W: w, A: []*T{a}, P1: w})
}

// ---- uninterpreted functions and raw SMT fragments

// UFApp applies the uninterpreted function name (result sort w) to args.
func (c *Ctx) UFApp(name string, w int, args ...*T) *T {
	return c.mk(T{Op: UF, W: w, Name: name, A: args})
}

// RawT is an SMT-LIB fragment with %0, %1 ... placeholders for the arguments;
// it is only meaningful in the bit-vector rendering.
func (c *Ctx) RawT(tmpl string, w int, args ...*T) *T {
	return c.mk(T{Op: Raw, W: w, Name: tmpl, A: args})
}

// Len64 is bits.Len64 as an ite chain.
func (c *Ctx) Len64(x *T) *T {
	w := x.W
	if x.IsConst() && w <= 64 {
		return c.BV(64, uint64(bits.Len64(x.K)))
	}
	r := c.BV(64, 0)
	for i := 0; i < w; i++ {
		// if x >= 2^i then at least i+1
		r = c.IteT(c.Cmp(Ule, c.BV(w, uint64(1)<<uint(i)), x), c.BV(64, uint64(i+1)), r)
	}
	return r
}

// Size returns the number of distinct nodes reachable from t.
func Size(t *T) int {
	seen := map[int]bool{}
	var f func(*T)
	f = func(t *T) {
		if seen[t.ID] {
			return
		}
		seen[t.ID] = true
		for _, a := range t.A {
			f(a)
		}
	}
	f(t)
	return len(seen)
}

// Eval evaluates t under a total assignment of its variables (for replay and
// for differential validation). UF and Raw are not evaluable.
func Eval(c *Ctx, t *T, env map[string]*big.Int) (*T, error) {
	memo := map[int]*T{}
	var f func(*T) (*T, error)
	f = func(t *T) (*T, error) {
		if r, ok := memo[t.ID]; ok {
			return r, nil
		}
		var r *T
		switch t.Op {
		case Const:
			r = t
		case Var:
			v, ok := env[t.Name]
			if !ok {
				return nil, fmt.Errorf("no value for %s", t.Name)
			}
			switch {
			case t.W == 0:
				r = c.Bool(v.Sign() != 0)
			case t.W == SortInt:
				r = c.Int(v)
			default:
				r = c.BVBig(t.W, v)
			}
		case UF, Raw:
			return nil, fmt.Errorf("cannot evaluate %s", opNames[t.Op])
		default:
			args := make([]*T, len(t.A))
			for i, a := range t.A {
				x, err := f(a)
				if err != nil {
					return nil, err
				}
				args[i] = x
			}
			r = c.Rebuild(t, args)
		}
		memo[t.ID] = r
		return r, nil
	}
	return f(t)
}

// Rebuild re-applies t's operator to new arguments (through the simplifier).
func (c *Ctx) Rebuild(t *T, a []*T) *T {
	switch t.Op {
	case Add, Sub, Mul, UDiv, SDiv, URem, SRem, And, Or, Xor, Shl, LShr, AShr:
		return c.Bin(t.Op, a[0], a[1])
	case Not:
		return c.NotBV(a[0])
	case Neg:
		return c.NegBV(a[0])
	case Eq, Ult, Ule, Slt, Sle, ILt, ILe:
		return c.Cmp(t.Op, a[0], a[1])
	case BAnd:
		return c.AndB(a[0], a[1])
	case BOr:
		return c.OrB(a[0], a[1])
	case BNot:
		return c.NotB(a[0])
	case Ite:
		return c.IteT(a[0], a[1], a[2])
	case Extract:
		return c.ExtractT(a[0], t.P1, t.P2)
	case Concat:
		return c.ConcatT(a[0], a[1])
	case ZExt:
		return c.ZExtT(a[0], t.W)
	case SExt:
		return c.SExtT(a[0], t.W)
	case IAdd, ISub, IMul, IDiv, IMod:
		return c.IBin(t.Op, a[0], a[1])
	case INeg:
		return c.INegT(a[0])
	case BV2IntU:
		return c.BV2Int(a[0], false)
	case BV2IntS:
		return c.BV2Int(a[0], true)
	case Int2BV:
		return c.Int2BVT(a[0], t.W)
	case UF:
		return c.UFApp(t.Name, t.W, a...)
	case Raw:
		return c.RawT(t.Name, t.W, a...)
	}
	panic("term: rebuild " + opNames[t.Op])
}
