package term

import (
	"fmt"
	"math/big"
	"strconv"
	"strings"
)

// Mode selects the rendering of bit-vector terms.
type Mode int

const (
	ModeBV  Mode = iota // (_ BitVec w), exact Go wrap-around semantics
	ModeInt             // mathematical integers in [0,2^w) with explicit mod 2^w wrap
)

// Printer renders terms as SMT-LIB2 definitions. It remembers which terms
// have been defined so that a DAG is emitted once (define-fun per node).
type Printer struct {
	Mode    Mode
	defined map[int]bool
	rng     map[int][2]*big.Int // integer rendering: syntactic value intervals
	Err     error
}

func NewPrinter(m Mode) *Printer { return &Printer{Mode: m, defined: map[int]bool{}} }

func (p *Printer) Reset() { p.defined = map[int]bool{}; p.rng = nil }

func pow2(w int) *big.Int { return new(big.Int).Lsh(big.NewInt(1), uint(w)) }

func intLit(v *big.Int) string {
	if v.Sign() < 0 {
		return "(- " + new(big.Int).Neg(v).String() + ")"
	}
	return v.String()
}

func (p *Printer) Sort(w int) string {
	switch {
	case w == SortBool:
		return "Bool"
	case w == SortInt:
		return "Int"
	case p.Mode == ModeInt:
		return "Int"
	}
	return "(_ BitVec " + strconv.Itoa(w) + ")"
}

func SafeName(n string) string {
	var sb strings.Builder
	sb.WriteString("v_")
	for _, r := range n {
		switch {
		case r >= 'a' && r <= 'z', r >= 'A' && r <= 'Z', r >= '0' && r <= '9', r == '_':
			sb.WriteRune(r)
		default:
			fmt.Fprintf(&sb, "_%x_", r)
		}
	}
	return sb.String()
}

// Ref is how a term is referred to inside other terms.
func (p *Printer) Ref(t *T) string {
	switch t.Op {
	case Const:
		switch {
		case t.W == SortBool:
			if t.K == 1 {
				return "true"
			}
			return "false"
		case t.W == SortInt:
			return intLit(t.Big)
		case p.Mode == ModeInt:
			return t.ConstBig().String()
		default:
			return "(_ bv" + t.ConstBig().String() + " " + strconv.Itoa(t.W) + ")"
		}
	case Var:
		return SafeName(t.Name)
	}
	return "t" + strconv.Itoa(t.ID)
}

// Decl returns the declaration (and, in Int mode, range constraint) of a variable.
func (p *Printer) Decl(t *T) string {
	n := SafeName(t.Name)
	s := "(declare-const " + n + " " + p.Sort(t.W) + ")\n"
	if p.Mode == ModeInt && t.W > 0 {
		s += p.intRange(t)
	}
	return s
}

// Emit appends to sb every definition needed for t that has not been emitted
// yet. UF applications newly defined are appended to ufs.
func (p *Printer) Emit(sb *strings.Builder, t *T, ufs *[]*T) {
	if t.Op == Const {
		return
	}
	if p.defined[t.ID] {
		return
	}
	p.defined[t.ID] = true
	for _, a := range t.A {
		p.Emit(sb, a, ufs)
	}
	switch t.Op {
	case Var:
		sb.WriteString(p.Decl(t))
		return
	case UF:
		*ufs = append(*ufs, t)
	}
	var body string
	if p.Mode == ModeInt {
		body = p.bodyInt(t)
	} else {
		body = p.bodyBV(t)
	}
	sb.WriteString("(define-fun t" + strconv.Itoa(t.ID) + " () " + p.Sort(t.W) + " " + body + ")\n")
}

// UFDecl declares an uninterpreted function from the sorts of one application.
func (p *Printer) UFDecl(t *T) string {
	var args []string
	for _, a := range t.A {
		args = append(args, p.Sort(a.W))
	}
	s := "(declare-fun " + SafeName(t.Name) + " (" + strings.Join(args, " ") + ") " + p.Sort(t.W) + ")\n"
	return s
}

func (p *Printer) app(op string, t *T) string {
	var sb strings.Builder
	sb.WriteString("(" + op)
	for _, a := range t.A {
		sb.WriteString(" " + p.Ref(a))
	}
	sb.WriteString(")")
	return sb.String()
}

func (p *Printer) rawBody(t *T) string {
	s := t.Name
	for i := len(t.A) - 1; i >= 0; i-- {
		s = strings.ReplaceAll(s, "%"+strconv.Itoa(i), p.Ref(t.A[i]))
	}
	return s
}

func (p *Printer) bodyBV(t *T) string {
	switch t.Op {
	case Extract:
		return fmt.Sprintf("((_ extract %d %d) %s)", t.P1, t.P2, p.Ref(t.A[0]))
	case ZExt:
		return fmt.Sprintf("((_ zero_extend %d) %s)", t.P1, p.Ref(t.A[0]))
	case SExt:
		return fmt.Sprintf("((_ sign_extend %d) %s)", t.P1, p.Ref(t.A[0]))
	case BV2IntU:
		return "(bv2nat " + p.Ref(t.A[0]) + ")"
	case BV2IntS:
		a := p.Ref(t.A[0])
		w := t.A[0].W
		return fmt.Sprintf("(ite (bvslt %s (_ bv0 %d)) (- (bv2nat %s) %s) (bv2nat %s))", a, w, a, pow2(w).String(), a)
	case Int2BV:
		return fmt.Sprintf("((_ int2bv %d) %s)", t.W, p.Ref(t.A[0]))
	case INeg:
		return "(- " + p.Ref(t.A[0]) + ")"
	case UF:
		return p.app(SafeName(t.Name), t)
	case Raw:
		return p.rawBody(t)
	}
	return p.app(opNames[t.Op], t)
}

// ---- integer rendering: a BV term is an Int; terms with Sg are represented
// by their signed value in [-2^(w-1), 2^(w-1)), the others by their unsigned
// value in [0, 2^w).

func (p *Printer) asS(t *T) string {
	w := t.W
	if t.Op == Const {
		v := t.ConstBig()
		if v.Bit(w-1) == 1 {
			v.Sub(v, pow2(w))
		}
		return intLit(v)
	}
	ref := p.Ref(t)
	if t.Sg {
		return ref
	}
	return "(ite (>= " + ref + " " + pow2(w-1).String() + ") (- " + ref + " " + pow2(w).String() + ") " + ref + ")"
}

func (p *Printer) asU(t *T) string {
	w := t.W
	if t.Op == Const {
		return t.ConstBig().String()
	}
	ref := p.Ref(t)
	if !t.Sg {
		return ref
	}
	return "(ite (< " + ref + " 0) (+ " + ref + " " + pow2(w).String() + ") " + ref + ")"
}

// as renders t in the representation selected by sg.
func (p *Printer) as(t *T, sg bool) string {
	if sg {
		return p.asS(t)
	}
	return p.asU(t)
}

func (p *Printer) wrapTo(e string, w int, sg bool) string {
	if sg {
		h := pow2(w - 1).String()
		return "(- (mod (+ " + e + " " + h + ") " + pow2(w).String() + ") " + h + ")"
	}
	return "(mod " + e + " " + pow2(w).String() + ")"
}

// pow2Of renders 2^s for a shift-amount term s (constant, or ite chain).
func (p *Printer) pow2Of(s *T, limit int) (string, bool) {
	if s.IsConst() {
		v := s.ConstBig()
		if v.Cmp(big.NewInt(int64(limit))) >= 0 {
			return "", false
		}
		return pow2(int(v.Int64())).String(), true
	}
	r := "0" // shift >= width
	su := p.asU(s)
	for i := limit - 1; i >= 0; i-- {
		r = "(ite (= " + su + " " + strconv.Itoa(i) + ") " + pow2(i).String() + " " + r + ")"
	}
	return r, true
}

func lowMask(v *big.Int) (int, bool) { // v == 2^k-1 ?
	k := v.BitLen()
	if new(big.Int).Add(v, big.NewInt(1)).Cmp(pow2(k)) == 0 {
		return k, true
	}
	return 0, false
}

// IntDecl declares a variable in the integer rendering with its range.
func (p *Printer) intRange(t *T) string {
	n := SafeName(t.Name)
	if t.Sg {
		return "(assert (and (<= (- " + pow2(t.W-1).String() + ") " + n + ") (< " + n + " " + pow2(t.W-1).String() + ")))\n"
	}
	return "(assert (and (<= 0 " + n + ") (< " + n + " " + pow2(t.W).String() + ")))\n"
}

// lowZeros / highZeros: syntactic lower bounds on the number of clear low /
// high bits of a w-bit term.
func lowZeros(t *T) int {
	switch t.Op {
	case Shl:
		if t.A[1].IsConst() && t.A[1].Big == nil {
			return int(t.A[1].K) + lowZeros(t.A[0])
		}
	case Const:
		v := t.ConstBig()
		if v.Sign() == 0 {
			return t.W
		}
		return int(v.TrailingZeroBits())
	}
	return 0
}

func highZeros(t *T) int {
	switch t.Op {
	case LShr:
		if t.A[1].IsConst() && t.A[1].Big == nil {
			return int(t.A[1].K) + highZeros(t.A[0])
		}
	case ZExt:
		return t.W - t.A[0].W + highZeros(t.A[0])
	case And:
		for i := 0; i < 2; i++ {
			if t.A[i].IsConst() {
				return t.W - t.A[i].ConstBig().BitLen()
			}
		}
	case Const:
		return t.W - t.ConstBig().BitLen()
	}
	return 0
}

func disjointBits(a, b *T, w int) (int, int, bool) {
	if lz, hz := lowZeros(a), highZeros(b); lz > 0 && lz+hz >= w {
		return lz, hz, true
	}
	if lz, hz := lowZeros(b), highZeros(a); lz > 0 && lz+hz >= w {
		return lz, hz, true
	}
	return 0, 0, false
}

// uRange is a syntactic interval for the unsigned value of a term whose
// integer rendering is unsigned (and whose operands are): it lets the
// integer rendering drop the "mod 2^w" of operations that provably do not
// wrap, which is what makes multiply/shift kernels decidable in practice.
func (p *Printer) uRange(t *T) (lo, hi *big.Int) {
	if p.rng == nil {
		p.rng = map[int][2]*big.Int{}
	}
	if r, ok := p.rng[t.ID]; ok {
		return r[0], r[1]
	}
	full := func() (*big.Int, *big.Int) {
		return big.NewInt(0), new(big.Int).Sub(pow2(t.W), big.NewInt(1))
	}
	lo, hi = full()
	max := new(big.Int).Set(hi)
	unsignedArgs := !t.Sg
	for _, a := range t.A {
		if a.Sg || a.W <= 0 {
			unsignedArgs = false
		}
	}
	if t.W > 0 && unsignedArgs {
		switch t.Op {
		case Const:
			lo, hi = t.ConstBig(), t.ConstBig()
		case ZExt:
			lo, hi = p.uRange(t.A[0])
		case Add, Mul, Sub, Shl:
			if l, h, ok := p.rawRange(t); ok && l.Sign() >= 0 && h.Cmp(max) <= 0 {
				lo, hi = l, h
			}
		case LShr:
			if t.A[1].IsConst() && t.A[1].Big == nil && int(t.A[1].K) < t.W {
				l, h := p.uRange(t.A[0])
				lo, hi = new(big.Int).Rsh(l, uint(t.A[1].K)), new(big.Int).Rsh(h, uint(t.A[1].K))
			}
		case UDiv:
			_, h := p.uRange(t.A[0])
			lo, hi = big.NewInt(0), h
		case URem:
			_, h := p.uRange(t.A[1])
			if h.Sign() > 0 {
				lo, hi = big.NewInt(0), new(big.Int).Sub(h, big.NewInt(1))
			}
		case And:
			_, h0 := p.uRange(t.A[0])
			_, h1 := p.uRange(t.A[1])
			lo = big.NewInt(0)
			if h0.Cmp(h1) < 0 {
				hi = h0
			} else {
				hi = h1
			}
		case Extract:
			lo, hi = big.NewInt(0), new(big.Int).Sub(pow2(t.P1-t.P2+1), big.NewInt(1))
		case Ite:
			l1, h1 := p.uRange(t.A[1])
			l2, h2 := p.uRange(t.A[2])
			lo, hi = l1, h1
			if l2.Cmp(lo) < 0 {
				lo = l2
			}
			if h2.Cmp(hi) > 0 {
				hi = h2
			}
		}
	}
	p.rng[t.ID] = [2]*big.Int{lo, hi}
	return
}

// rawRange is the interval of the un-wrapped result of an arithmetic term
// over unsigned operands.
func (p *Printer) rawRange(t *T) (lo, hi *big.Int, ok bool) {
	for _, a := range t.A {
		if a.Sg || a.W <= 0 {
			return nil, nil, false
		}
	}
	if t.Sg {
		return nil, nil, false
	}
	l0, h0 := p.uRange(t.A[0])
	switch t.Op {
	case Add:
		l1, h1 := p.uRange(t.A[1])
		return new(big.Int).Add(l0, l1), new(big.Int).Add(h0, h1), true
	case Sub:
		l1, h1 := p.uRange(t.A[1])
		return new(big.Int).Sub(l0, h1), new(big.Int).Sub(h0, l1), true
	case Mul:
		l1, h1 := p.uRange(t.A[1])
		return new(big.Int).Mul(l0, l1), new(big.Int).Mul(h0, h1), true
	case Shl:
		if t.A[1].IsConst() && t.A[1].Big == nil && int(t.A[1].K) < t.W {
			return new(big.Int).Lsh(l0, uint(t.A[1].K)), new(big.Int).Lsh(h0, uint(t.A[1].K)), true
		}
	}
	return nil, nil, false
}

func (p *Printer) noWrap(t *T) bool {
	l, h, ok := p.rawRange(t)
	return ok && l.Sign() >= 0 && h.Cmp(pow2(t.W)) < 0
}

func (p *Printer) bodyInt(t *T) string {
	w := t.W
	sg := t.Sg
	a := func(i int) string { return p.as(t.A[i], sg) }
	switch t.Op {
	case Add:
		if p.noWrap(t) {
			return "(+ " + a(0) + " " + a(1) + ")"
		}
		return p.wrapTo("(+ "+a(0)+" "+a(1)+")", w, sg)
	case Sub:
		if p.noWrap(t) {
			return "(- " + a(0) + " " + a(1) + ")"
		}
		return p.wrapTo("(- "+a(0)+" "+a(1)+")", w, sg)
	case Mul:
		if p.noWrap(t) {
			return "(* " + a(0) + " " + a(1) + ")"
		}
		return p.wrapTo("(* "+a(0)+" "+a(1)+")", w, sg)
	case Neg:
		return p.wrapTo("(- "+a(0)+")", w, sg)
	case Not:
		if sg {
			return "(- (- 1) " + a(0) + ")"
		}
		return "(- " + new(big.Int).Sub(pow2(w), big.NewInt(1)).String() + " " + a(0) + ")"
	case UDiv:
		return "(div " + p.asU(t.A[0]) + " " + p.asU(t.A[1]) + ")"
	case URem:
		return "(mod " + p.asU(t.A[0]) + " " + p.asU(t.A[1]) + ")"
	case SDiv, SRem: // Sg result
		sa, sb := p.asS(t.A[0]), p.asS(t.A[1])
		aa, ab := "(abs "+sa+")", "(abs "+sb+")"
		if t.Op == SDiv {
			q := "(div " + aa + " " + ab + ")"
			neg := "(xor (< " + sa + " 0) (< " + sb + " 0))"
			return p.wrapTo("(ite "+neg+" (- "+q+") "+q+")", w, true)
		}
		m := "(mod " + aa + " " + ab + ")"
		return "(ite (< " + sa + " 0) (- " + m + ") " + m + ")"
	case And: // unsigned result
		for i := 0; i < 2; i++ {
			if t.A[i].IsConst() {
				v := t.A[i].ConstBig()
				o := p.asU(t.A[1-i])
				if k, ok := lowMask(v); ok {
					if !t.A[1-i].Sg {
						if _, h := p.uRange(t.A[1-i]); h.Cmp(pow2(k)) < 0 {
							return o // the mask keeps every bit the operand can have
						}
					}
					return "(mod " + o + " " + pow2(k).String() + ")"
				}
				inv := new(big.Int).Sub(new(big.Int).Sub(pow2(w), big.NewInt(1)), v)
				if k, ok := lowMask(inv); ok {
					return "(- " + o + " (mod " + o + " " + pow2(k).String() + "))"
				}
				if v.Sign() > 0 && new(big.Int).And(v, new(big.Int).Sub(v, big.NewInt(1))).Sign() == 0 {
					k := v.BitLen() - 1
					return "(* " + pow2(k).String() + " (mod (div " + o + " " + pow2(k).String() + ") 2))"
				}
			}
		}
		p.fail("bvand with non-mask operand in integer rendering")
	case Or, Xor:
		// bit-disjoint operands: x<<s | y>>t with t >= w-s (the left operand has
		// its low s bits clear, the right operand fits in them) is a sum
		if lz, tz, ok := disjointBits(t.A[0], t.A[1], w); ok {
			_, _ = lz, tz
			return "(+ " + p.asU(t.A[0]) + " " + p.asU(t.A[1]) + ")"
		}
		p.fail("symbolic " + opNames[t.Op] + " in integer rendering")
	case Shl:
		if e, ok := p.pow2Of(t.A[1], w); ok {
			if p.noWrap(t) {
				return "(* " + a(0) + " " + e + ")"
			}
			return p.wrapTo("(* "+a(0)+" "+e+")", w, sg)
		}
		return "0"
	case LShr: // unsigned result
		x := p.asU(t.A[0])
		if t.A[1].IsConst() {
			if e, ok := p.pow2Of(t.A[1], w); ok {
				return "(div " + x + " " + e + ")"
			}
			return "0"
		}
		e, _ := p.pow2Of(t.A[1], w)
		return "(ite (>= " + p.asU(t.A[1]) + " " + strconv.Itoa(w) + ") 0 (div " + x + " " + e + "))"
	case AShr: // signed result; floor division keeps the range
		x := p.asS(t.A[0])
		fill := "(ite (< " + x + " 0) (- 1) 0)"
		if t.A[1].IsConst() {
			if e, ok := p.pow2Of(t.A[1], w); ok {
				return "(div " + x + " " + e + ")"
			}
			return fill
		}
		e, _ := p.pow2Of(t.A[1], w)
		return "(ite (>= " + p.asU(t.A[1]) + " " + strconv.Itoa(w) + ") " + fill + " (div " + x + " " + e + "))"
	case Eq:
		if t.A[0].W <= 0 {
			return "(= " + p.Ref(t.A[0]) + " " + p.Ref(t.A[1]) + ")"
		}
		s := t.A[0].Sg || t.A[1].Sg
		if t.A[0].Op == Const {
			s = t.A[1].Sg
		} else if t.A[1].Op == Const {
			s = t.A[0].Sg
		}
		return "(= " + p.as(t.A[0], s) + " " + p.as(t.A[1], s) + ")"
	case Ult:
		return "(< " + p.asU(t.A[0]) + " " + p.asU(t.A[1]) + ")"
	case Ule:
		return "(<= " + p.asU(t.A[0]) + " " + p.asU(t.A[1]) + ")"
	case Slt:
		return "(< " + p.asS(t.A[0]) + " " + p.asS(t.A[1]) + ")"
	case Sle:
		return "(<= " + p.asS(t.A[0]) + " " + p.asS(t.A[1]) + ")"
	case Extract: // unsigned
		return "(mod (div " + p.asU(t.A[0]) + " " + pow2(t.P2).String() + ") " + pow2(t.P1-t.P2+1).String() + ")"
	case Concat: // unsigned
		return "(+ (* " + p.asU(t.A[0]) + " " + pow2(t.A[1].W).String() + ") " + p.asU(t.A[1]) + ")"
	case ZExt: // unsigned
		return p.asU(t.A[0])
	case SExt: // signed
		return p.asS(t.A[0])
	case BV2IntU:
		return p.asU(t.A[0])
	case BV2IntS:
		return p.asS(t.A[0])
	case Int2BV:
		return p.wrapTo(p.Ref(t.A[0]), w, sg)
	case INeg:
		return "(- " + p.Ref(t.A[0]) + ")"
	case Ite:
		if w > 0 {
			return "(ite " + p.Ref(t.A[0]) + " " + p.as(t.A[1], sg) + " " + p.as(t.A[2], sg) + ")"
		}
		return p.app("ite", t)
	case UF:
		var sb strings.Builder
		sb.WriteString("(" + SafeName(t.Name))
		for _, x := range t.A {
			if x.W > 0 {
				sb.WriteString(" " + p.asU(x))
			} else {
				sb.WriteString(" " + p.Ref(x))
			}
		}
		sb.WriteString(")")
		if w > 0 && sg {
			// the function value is an unsigned number; convert
			u := sb.String()
			return "(ite (>= " + u + " " + pow2(w-1).String() + ") (- " + u + " " + pow2(w).String() + ") " + u + ")"
		}
		return sb.String()
	case Raw:
		p.fail("raw SMT fragment in integer rendering")
	case BAnd, BOr, BNot, IAdd, ISub, IMul, IDiv, IMod, ILt, ILe:
		return p.app(opNames[t.Op], t)
	}
	p.fail("integer rendering of " + opNames[t.Op])
	return "0"
}

func (p *Printer) fail(msg string) {
	if p.Err == nil {
		p.Err = fmt.Errorf("%s", msg)
	}
}

// String renders a term as a nested expression (debugging, evidence samples).
func String(t *T) string {
	switch t.Op {
	case Const:
		if t.W == 0 {
			return strconv.FormatBool(t.K == 1)
		}
		if t.W == SortInt {
			return t.Big.String()
		}
		return "0x" + t.ConstBig().Text(16) + ":" + strconv.Itoa(t.W)
	case Var:
		return t.Name
	}
	var sb strings.Builder
	sb.WriteString("(" + opNames[t.Op])
	if t.Op == Extract {
		fmt.Fprintf(&sb, "[%d:%d]", t.P1, t.P2)
	}
	if t.Op == UF {
		sb.WriteString(":" + t.Name)
	}
	for _, a := range t.A {
		sb.WriteString(" ")
		if Size(a) > 12 {
			fmt.Fprintf(&sb, "t%d", a.ID)
		} else {
			sb.WriteString(String(a))
		}
	}
	sb.WriteString(")")
	return sb.String()
}
