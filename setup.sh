#!/bin/bash
# Builds the symbolic executor from files on disk only (offline).
set -e
cd "$(dirname "$0")"
export PATH=/root/go/pkg/mod/golang.org/toolchain@v0.0.1-go1.25.9.linux-amd64/bin:$PATH
export GOTOOLCHAIN=local GOFLAGS=-mod=mod GOPROXY=off
unset GOSUMDB
mkdir -p bin evidence work replays
(cd engine && go build -o ../bin/gosym ./cmd/gosym)
echo "gosym built"
