package types

// Harness for C10 (gas metering is sound and consistent): the gas meters.
// The meter starts in an ARBITRARY state (any limit >= 0, any consumed >= 0,
// including "already past the limit"), then k operations with arbitrary
// amounts are applied; after every operation the meter is compared with the
// arithmetic the documentation promises. One inductive step from an arbitrary
// state covers histories of any length; k > 1 additionally exercises the
// state the code itself produces.

import (
	"math"
	"math/big"
)

func verifC10PanicKind(v any) int {
	switch v.(type) {
	case nil:
		return 0
	case OutOfGasError:
		return 1
	case GasOverflowError:
		return 2
	}
	return 3
}

var verifC10MaxInt64 = big.NewInt(math.MaxInt64)

// observers agree with (limit, consumed) and never panic
func verifC10Observe(m GasMeter, limit, consumed int64, finite bool) {
	var gc, gcl, rem, lim int64
	var past, out bool
	p := verifPanics(func() {
		gc, gcl, rem, lim = m.GasConsumed(), m.GasConsumedToLimit(), m.Remaining(), m.Limit()
		past, out = m.IsPastLimit(), m.IsOutOfGas()
	})
	verifAssert(!p, "observers (GasConsumed/ToLimit/Remaining/Limit/IsPastLimit/IsOutOfGas) never panic")
	if p {
		return
	}
	verifAssert(gc == consumed, "GasConsumed is the running total")
	verifAssert(gc >= 0, "consumed gas is never negative")
	if finite {
		verifAssert(lim == limit, "Limit")
		verifAssert(gcl <= limit, "GasConsumedToLimit never exceeds the limit")
		verifAssert((consumed <= limit && gcl == consumed) || (consumed > limit && gcl == limit), "GasConsumedToLimit = min(consumed, limit)")
		verifAssert(rem >= 0 && rem == limit-gcl, "Remaining = limit - GasConsumedToLimit")
		verifAssert(past == (consumed > limit), "IsPastLimit <=> consumed > limit")
		verifAssert(out == (consumed >= limit), "IsOutOfGas <=> consumed >= limit")
	} else {
		verifAssert(gcl == consumed && !past && !out && rem == math.MaxInt64, "infinite meter is never out of gas")
	}
}

func verifC10Steps() int {
	if verifThorough() {
		return 4
	}
	return 3
}

func VerifC10_BasicMeter() {
	limit := verifNondetInt64("limit")
	consumed := verifNondetInt64("consumed")
	verifAssume(limit >= 0)
	verifAssume(consumed >= 0)
	var m GasMeter
	if verifChoose("fresh", 2) == 1 {
		verifAssume(consumed == 0)
		m = NewGasMeter(limit)
	} else {
		m = &basicGasMeter{limit: limit, consumed: consumed}
	}
	verifC10Observe(m, limit, consumed, true)
	for s, n := 0, 3; s < n; s++ { // 3 calls in both tiers: 4 did not finish inside the wall budget (basic meter only)
		amt := verifNondetInt64("amount")
		if verifChoose("op", 2) == 0 {
			k := verifC10PanicKind(verifPanicValue(func() { m.ConsumeGas(amt, "x") }))
			sum := new(big.Int).Add(big.NewInt(consumed), big.NewInt(amt))
			switch {
			case amt < 0:
				verifAssert(k == 3, "ConsumeGas of a negative amount panics")
			case sum.Cmp(verifC10MaxInt64) > 0:
				verifAssert(k == 2, "ConsumeGas panics GasOverflowError exactly on int64 overflow")
			default:
				consumed += amt
				if consumed > limit {
					verifAssert(k == 1, "ConsumeGas past the limit panics OutOfGasError")
				} else {
					verifAssert(k == 0, "ConsumeGas within the limit returns")
				}
			}
			if k == 0 {
				verifAssert(m.GasConsumed() <= limit, "a ConsumeGas that returns leaves consumed <= limit")
			}
		} else {
			k := verifC10PanicKind(verifPanicValue(func() { m.RefundGas(amt, "x") }))
			if amt < 0 {
				verifAssert(k == 3, "RefundGas of a negative amount panics")
			} else {
				verifAssert(k == 0, "RefundGas never panics on a non-negative amount")
				if amt > consumed {
					consumed = 0
				} else {
					consumed -= amt
				}
			}
		}
		verifC10Observe(m, limit, consumed, true)
	}
	verifReach("end")
}

func VerifC10_InfiniteMeter() {
	consumed := verifNondetInt64("consumed")
	verifAssume(consumed >= 0)
	var m GasMeter = &infiniteGasMeter{consumed: consumed}
	if verifChoose("fresh", 2) == 1 {
		verifAssume(consumed == 0)
		m = NewInfiniteGasMeter()
	}
	verifC10Observe(m, 0, consumed, false)
	for s, n := 0, verifC10Steps(); s < n; s++ {
		amt := verifNondetInt64("amount")
		verifAssume(amt >= 0) // every caller passes a non-negative cost
		if verifChoose("op", 2) == 0 {
			k := verifC10PanicKind(verifPanicValue(func() { m.ConsumeGas(amt, "x") }))
			sum := new(big.Int).Add(big.NewInt(consumed), big.NewInt(amt))
			if sum.Cmp(verifC10MaxInt64) > 0 {
				verifAssert(k == 2, "infinite meter panics GasOverflowError exactly on int64 overflow")
			} else {
				verifAssert(k == 0, "infinite meter never runs out of gas")
				consumed += amt
			}
		} else {
			k := verifC10PanicKind(verifPanicValue(func() { m.RefundGas(amt, "x") }))
			verifAssert(k == 0, "RefundGas never panics on a non-negative amount")
			if amt > consumed {
				consumed = 0
			} else {
				consumed -= amt
			}
		}
		verifC10Observe(m, 0, consumed, false)
	}
	verifReach("end")
}

// The passthrough meter used by runTx before the ante handler installs the
// per-transaction meter: every charge reaches both the base and the head.
func VerifC10_PassthroughMeter() {
	blimit := verifNondetInt64("baseLimit")
	bcons := verifNondetInt64("baseConsumed")
	hlimit := verifNondetInt64("headLimit")
	verifAssume(blimit >= 0 && bcons >= 0 && hlimit >= 0)
	base := &basicGasMeter{limit: blimit, consumed: bcons}
	var m GasMeter = NewPassthroughGasMeter(base, hlimit)
	hcons := int64(0)
	verifC10Observe(m, hlimit, hcons, true)
	for s, n := 0, verifC10Steps(); s < n; s++ {
		amt := verifNondetInt64("amount")
		verifAssume(amt >= 0)
		if verifChoose("op", 2) == 0 {
			k := verifC10PanicKind(verifPanicValue(func() { m.ConsumeGas(amt, "x") }))
			bsum := new(big.Int).Add(big.NewInt(bcons), big.NewInt(amt))
			switch {
			case bsum.Cmp(verifC10MaxInt64) > 0:
				verifAssert(k == 2, "passthrough: base overflow panics GasOverflowError")
			case bcons+amt > blimit:
				bcons += amt
				verifAssert(k == 1, "passthrough: a charge past the base limit panics OutOfGasError")
			default:
				bcons += amt
				// head cannot overflow here: hcons <= bcons - (initial base consumed)
				hcons += amt
				if hcons > hlimit {
					verifAssert(k == 1, "passthrough: a charge past the head limit panics OutOfGasError")
				} else {
					verifAssert(k == 0, "passthrough: a charge within both limits returns")
				}
			}
		} else {
			k := verifC10PanicKind(verifPanicValue(func() { m.RefundGas(amt, "x") }))
			verifAssert(k == 0, "RefundGas never panics on a non-negative amount")
			if amt > bcons {
				bcons = 0
			} else {
				bcons -= amt
			}
			if amt > hcons {
				hcons = 0
			} else {
				hcons -= amt
			}
		}
		verifAssert(base.GasConsumed() == bcons, "passthrough: the base meter saw every charge and refund")
		verifC10Observe(m, hlimit, hcons, true)
	}
	verifReach("end")
}

// GasContext helpers: the amount charged is the documented cost, computed
// without silent wrap-around (overflow panics instead).
func VerifC10_GasContext() {
	var cfg GasConfig
	cfg.ReadCostFlat = verifNondetInt64("readFlat")
	cfg.ReadCostPerByte = verifNondetInt64("readPerByte")
	cfg.WriteCostFlat = verifNondetInt64("writeFlat")
	cfg.WriteCostPerByte = verifNondetInt64("writePerByte")
	cfg.DeleteCost = verifNondetInt64("deleteCost")
	cfg.IterNextCostFlat = verifNondetInt64("iterFlat")
	verifAssume(cfg.ReadCostFlat >= 0 && cfg.ReadCostPerByte >= 0 && cfg.WriteCostFlat >= 0 &&
		cfg.WriteCostPerByte >= 0 && cfg.DeleteCost >= 0 && cfg.IterNextCostFlat >= 0)
	n := verifChoose("len", 4)
	bz := make([]byte, n)
	m := &infiniteGasMeter{}
	g := &GasContext{Meter: m, Config: cfg}
	var want *big.Int
	var ret int64
	hasRet := false
	var p bool
	switch verifChoose("call", 6) {
	case 0:
		p = verifPanics(func() { g.WillGet() })
		want = big.NewInt(cfg.ReadCostFlat)
	case 1:
		p = verifPanics(func() { g.DidGet(bz) })
		want = new(big.Int).Mul(big.NewInt(cfg.ReadCostPerByte), big.NewInt(int64(n)))
	case 2:
		p = verifPanics(func() { ret = g.WillSet(bz) })
		hasRet = true
		want = new(big.Int).Mul(big.NewInt(cfg.WriteCostPerByte), big.NewInt(int64(n)))
		want.Add(want, big.NewInt(cfg.WriteCostFlat))
	case 3:
		p = verifPanics(func() { ret = g.WillDelete() })
		hasRet = true
		want = big.NewInt(cfg.DeleteCost)
	case 4:
		p = verifPanics(func() { g.WillIterator() })
		want = big.NewInt(cfg.ReadCostFlat)
	case 5:
		p = verifPanics(func() { g.WillIterNext(bz) })
		want = new(big.Int).Mul(big.NewInt(cfg.ReadCostPerByte), big.NewInt(int64(n)))
		want.Add(want, big.NewInt(cfg.IterNextCostFlat))
	}
	fits := want.Cmp(verifC10MaxInt64) <= 0
	verifAssert(p == !fits, "a store charge panics exactly when the documented cost does not fit int64")
	if !p {
		verifAssert(big.NewInt(m.consumed).Cmp(want) == 0, "the meter is charged exactly the documented cost")
		if hasRet {
			verifAssert(big.NewInt(ret).Cmp(want) == 0, "the returned amount is the amount charged")
		}
	}
	verifReach("end")
}
