package gnolang

// Harness for C04 (Gno computes what Go computes): the scalar operator
// kernels of the GnoVM on the ten sized integer kinds. Operands are
// unconstrained; the oracle computes in 64 bits from the raw operand bits and
// truncates to the kind's width (sign-extending first for signed kinds),
// which is what the Go specification prescribes for fixed-width integers.

type verifC04Kind struct {
	name   string
	T      Type
	width  uint
	signed bool
	set    func(tv *TypedValue, raw uint64)
	get    func(tv *TypedValue) uint64
}

func verifC04Kinds() []verifC04Kind {
	return []verifC04Kind{
		{"int", IntType, 64, true, func(tv *TypedValue, r uint64) { tv.SetInt(int64(r)) }, func(tv *TypedValue) uint64 { return uint64(tv.GetInt()) }},
		{"int8", Int8Type, 8, true, func(tv *TypedValue, r uint64) { tv.SetInt8(int8(r)) }, func(tv *TypedValue) uint64 { return uint64(uint8(tv.GetInt8())) }},
		{"int16", Int16Type, 16, true, func(tv *TypedValue, r uint64) { tv.SetInt16(int16(r)) }, func(tv *TypedValue) uint64 { return uint64(uint16(tv.GetInt16())) }},
		{"int32", Int32Type, 32, true, func(tv *TypedValue, r uint64) { tv.SetInt32(int32(r)) }, func(tv *TypedValue) uint64 { return uint64(uint32(tv.GetInt32())) }},
		{"int64", Int64Type, 64, true, func(tv *TypedValue, r uint64) { tv.SetInt64(int64(r)) }, func(tv *TypedValue) uint64 { return uint64(tv.GetInt64()) }},
		{"uint", UintType, 64, false, func(tv *TypedValue, r uint64) { tv.SetUint(r) }, func(tv *TypedValue) uint64 { return tv.GetUint() }},
		{"uint8", Uint8Type, 8, false, func(tv *TypedValue, r uint64) { tv.SetUint8(uint8(r)) }, func(tv *TypedValue) uint64 { return uint64(tv.GetUint8()) }},
		{"uint16", Uint16Type, 16, false, func(tv *TypedValue, r uint64) { tv.SetUint16(uint16(r)) }, func(tv *TypedValue) uint64 { return uint64(tv.GetUint16()) }},
		{"uint32", Uint32Type, 32, false, func(tv *TypedValue, r uint64) { tv.SetUint32(uint32(r)) }, func(tv *TypedValue) uint64 { return uint64(tv.GetUint32()) }},
		{"uint64", Uint64Type, 64, false, func(tv *TypedValue, r uint64) { tv.SetUint64(r) }, func(tv *TypedValue) uint64 { return tv.GetUint64() }},
	}
}

// typed computes a*b (op 0), a/b (op 1) or a%b (op 2) with Go's own operator
// at the kind's type - the reference "what Go computes" for the operators
// whose 64-bit re-derivation the solvers do not decide (multiplication and
// division by a symbolic operand).
func verifC04Typed(name string, op int, a, b uint64) uint64 {
	switch name {
	case "int", "int64":
		x, y := int64(a), int64(b)
		return uint64([]func() int64{func() int64 { return x * y }, func() int64 { return x / y }, func() int64 { return x % y }}[op]())
	case "int8":
		x, y := int8(a), int8(b)
		return uint64(uint8([]func() int8{func() int8 { return x * y }, func() int8 { return x / y }, func() int8 { return x % y }}[op]()))
	case "int16":
		x, y := int16(a), int16(b)
		return uint64(uint16([]func() int16{func() int16 { return x * y }, func() int16 { return x / y }, func() int16 { return x % y }}[op]()))
	case "int32":
		x, y := int32(a), int32(b)
		return uint64(uint32([]func() int32{func() int32 { return x * y }, func() int32 { return x / y }, func() int32 { return x % y }}[op]()))
	case "uint", "uint64":
		x, y := a, b
		return []func() uint64{func() uint64 { return x * y }, func() uint64 { return x / y }, func() uint64 { return x % y }}[op]()
	case "uint8":
		x, y := uint8(a), uint8(b)
		return uint64([]func() uint8{func() uint8 { return x * y }, func() uint8 { return x / y }, func() uint8 { return x % y }}[op]())
	case "uint16":
		x, y := uint16(a), uint16(b)
		return uint64([]func() uint16{func() uint16 { return x * y }, func() uint16 { return x / y }, func() uint16 { return x % y }}[op]())
	case "uint32":
		x, y := uint32(a), uint32(b)
		return uint64([]func() uint32{func() uint32 { return x * y }, func() uint32 { return x / y }, func() uint32 { return x % y }}[op]())
	}
	panic("kind")
}

// trunc keeps the low `width` bits; ext is the operand as a 64-bit value of
// the kind's signedness.
func (k verifC04Kind) trunc(x uint64) uint64 {
	if k.width == 64 {
		return x
	}
	return x & (1<<k.width - 1)
}
func (k verifC04Kind) ext(x uint64) int64 {
	x = k.trunc(x)
	if k.signed && k.width < 64 && x>>(k.width-1) == 1 {
		x |= ^uint64(0) << k.width
	}
	return int64(x)
}

func verifC04Operands(k verifC04Kind) (lv, rv *TypedValue, a, b uint64) {
	a, b = verifNondetUint64("a"), verifNondetUint64("b")
	lv, rv = &TypedValue{T: k.T}, &TypedValue{T: k.T}
	k.set(lv, a)
	k.set(rv, b)
	return
}

// + - & | ^ &^ are decided in the bit-vector rendering, * / % in the integer
// rendering (see the engine notes on multiplication and division).
func VerifC04_AddBits() { verifC04Arith([]int{0, 1, 5, 6, 7, 8}) }
func VerifC04_MulDiv()  { verifC04Arith([]int{2, 3, 4}) }

func verifC04Arith(ops []int) {
	k := verifC04Kinds()[verifChoose("kind", 10)]
	lv, rv, a, b := verifC04Operands(k)
	x, y := k.ext(a), k.ext(b)
	_ = y
	switch ops[verifChoose("op", len(ops))] {
	case 0:
		addAssign(nil, lv, rv)
		verifAssert(k.get(lv) == k.trunc(uint64(x+y)), "a + b wraps around like Go")
	case 1:
		subAssign(lv, rv)
		verifAssert(k.get(lv) == k.trunc(uint64(x-y)), "a - b wraps around like Go")
	case 2:
		mulAssign(lv, rv)
		verifAssert(k.get(lv) == verifC04Typed(k.name, 0, a, b), "a * b is Go's product at the kind's type")
	case 3:
		ex := quoAssign(lv, rv)
		verifAssert((ex != nil) == (k.trunc(b) == 0), "division reports an exception exactly for a zero divisor")
		if ex == nil {
			verifAssert(k.get(lv) == verifC04Typed(k.name, 1, a, b), "a / b is Go's quotient at the kind's type (truncated, MinInt / -1 wraps)")
		} else {
			verifAssert(k.get(lv) == k.trunc(a), "a failed division leaves the operand unchanged")
		}
	case 4:
		ex := remAssign(lv, rv)
		verifAssert((ex != nil) == (k.trunc(b) == 0), "remainder reports an exception exactly for a zero divisor")
		if ex == nil {
			verifAssert(k.get(lv) == verifC04Typed(k.name, 2, a, b), "a % b is Go's remainder at the kind's type")
		}
	case 5:
		bandAssign(lv, rv)
		verifAssert(k.get(lv) == k.trunc(a&b), "a & b")
	case 6:
		borAssign(lv, rv)
		verifAssert(k.get(lv) == k.trunc(a|b), "a | b")
	case 7:
		xorAssign(lv, rv)
		verifAssert(k.get(lv) == k.trunc(a^b), "a ^ b")
	case 8:
		bandnAssign(lv, rv)
		verifAssert(k.get(lv) == k.trunc(a&^b), "a &^ b")
	}
	verifReach("end")
}

func VerifC04_Shift() {
	k := verifC04Kinds()[verifChoose("kind", 10)]
	a, s := verifNondetUint64("a"), verifNondetUint64("shift")
	lv := &TypedValue{T: k.T}
	k.set(lv, a)
	rv := &TypedValue{T: UintType}
	rv.SetUint(s)
	m := &Machine{Stage: StageRun}
	x := k.ext(a)
	if verifChoose("op", 2) == 0 {
		shlAssign(m, lv, rv)
		var want uint64
		if s < 64 {
			want = uint64(x) << s
		}
		verifAssert(k.get(lv) == k.trunc(want), "a << s shifts in zeros and yields 0 for s >= width")
	} else {
		shrAssign(m, lv, rv)
		var want uint64
		switch {
		case k.signed && s >= 64 && x < 0:
			want = ^uint64(0)
		case k.signed && s < 64:
			want = uint64(x >> s)
		case !k.signed && s < 64:
			want = k.trunc(a) >> s
		}
		verifAssert(k.get(lv) == k.trunc(want), "a >> s is arithmetic for signed and logical for unsigned kinds")
	}
	verifReach("end")
}

func VerifC04_Compare() {
	k := verifC04Kinds()[verifChoose("kind", 10)]
	lv, rv, a, b := verifC04Operands(k)
	x, y := k.ext(a), k.ext(b)
	lt, eq := x < y, x == y
	if !k.signed {
		lt = k.trunc(a) < k.trunc(b)
	}
	m := &Machine{Stage: StageRun}
	switch verifChoose("op", 5) {
	case 0:
		verifAssert(isEql(m, lv, rv, false) == eq, "a == b")
	case 1:
		verifAssert(isLss(m, lv, rv) == lt, "a < b")
	case 2:
		verifAssert(isLeq(m, lv, rv) == (lt || eq), "a <= b")
	case 3:
		verifAssert(isGtr(m, lv, rv) == (!lt && !eq), "a > b")
	case 4:
		verifAssert(isGeq(m, lv, rv) == !lt, "a >= b")
	}
	verifReach("end")
}
