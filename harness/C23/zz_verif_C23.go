package bptree

// Harness for C23 (the B+ tree is a correct versioned map): the node-level
// kernels every lookup and insertion goes through - binary search in leaf and
// inner nodes and the leaf / inner splits - on nodes whose keys are SYMBOLIC
// (one byte each, kept sorted by assumption) with a symbolic probe key.

import "bytes"

func verifC23SortedKeys(n int) [][]byte {
	ks := make([][]byte, n)
	for i := range ks {
		ks[i] = verifBytes("key", 1)
		if i > 0 {
			verifAssume(bytes.Compare(ks[i-1], ks[i]) < 0)
		}
	}
	return ks
}

func VerifC23_SearchLeaf() {
	maxN := 6
	if verifThorough() {
		maxN = 9
	}
	n := verifChoose("numKeys", maxN+1)
	ks := verifC23SortedKeys(n)
	leaf := &LeafNode{numKeys: int16(n)}
	copy(leaf.keys[:], ks)
	probe := verifBytes("probe", 1)
	idx, found := searchLeaf(leaf, probe)
	// reference: lower bound by linear scan
	want := n
	for i := n - 1; i >= 0; i-- {
		if bytes.Compare(ks[i], probe) >= 0 {
			want = i
		}
	}
	wantFound := want < n && bytes.Equal(ks[want], probe)
	verifAssert(idx == want && found == wantFound, "searchLeaf returns the lower-bound position and whether the key is present")
	verifReach("end")
}

func VerifC23_SearchInner() {
	maxN := 6
	if verifThorough() {
		maxN = 9
	}
	n := 1 + verifChoose("numKeys", maxN)
	ks := verifC23SortedKeys(n)
	inner := &InnerNode{numKeys: int16(n)}
	copy(inner.keys[:], ks)
	probe := verifBytes("probe", 1)
	idx := searchInner(inner, probe)
	// child i covers [keys[i-1], keys[i]): the number of separators <= probe
	want := 0
	for i := 0; i < n; i++ {
		if bytes.Compare(ks[i], probe) <= 0 {
			want = i + 1
		}
	}
	verifAssert(idx == want, "searchInner returns the child whose key range contains the probe")
	verifReach("end")
}

// Splits of an overflowing node (B+1 keys / B keys): both halves keep every
// key exactly once, in order, with the documented sizes, and the separator is
// the first key of the right leaf (leaf split) or the consumed middle key
// (inner split). Entry contents are symbolic; the insert position is a
// structural choice.
func VerifC23_SplitLeaf() {
	total := B + 1
	keys := make([][]byte, total)
	vhs := make([]Hash, total)
	vks := make([][]byte, total)
	for i := range keys {
		keys[i] = verifBytes("key", 1)
		vhs[i][0] = verifNondetUint8("vhash")
		vks[i] = verifBytes("vkey", 2)
	}
	pos := []int{0, 1, B / 2, B - 1, B}[verifChoose("insertPos", 5)]
	left, res := splitLeaf(keys, vhs, vks, pos)
	right := res.right.(*LeafNode)
	wantLeft := (total + 1) / 2
	if pos == B {
		wantLeft = B - 1
	}
	verifAssert(int(left.numKeys) == wantLeft && int(left.numKeys)+int(right.numKeys) == total, "leaf split sizes: 50/50, or B-1 / 2 for an append")
	verifAssert(int(left.numKeys) >= 1 && int(right.numKeys) >= 1 && int(left.numKeys) <= B && int(right.numKeys) <= B, "both halves are valid nodes")
	for i := 0; i < total; i++ {
		var k []byte
		var vh Hash
		var vk []byte
		if i < int(left.numKeys) {
			k, vh, vk = left.keys[i], left.valueHashes[i], left.valueKeys[i]
		} else {
			j := i - int(left.numKeys)
			k, vh, vk = right.keys[j], right.valueHashes[j], right.valueKeys[j]
		}
		verifAssert(bytes.Equal(k, keys[i]) && vh == vhs[i] && bytes.Equal(vk, vks[i]), "the halves hold every entry exactly once, in order")
	}
	verifAssert(bytes.Equal(res.separator, right.keys[0]), "the separator is the first key of the right leaf")
	verifReach("end")
}

func VerifC23_SplitInner() {
	nk := B // overflow: B keys, B+1 children
	keys := make([][]byte, nk)
	children := make([][]byte, nk+1)
	hashes := make([]Hash, nk+1)
	sizes := make([]int64, nk+1)
	for i := range keys {
		keys[i] = verifBytes("key", 1)
	}
	for i := range children {
		children[i] = verifBytes("child", 2)
		hashes[i][0] = verifNondetUint8("chash")
		sizes[i] = verifNondetInt64("size")
	}
	left, res := splitInner(keys, children, hashes, 3, sizes)
	right := res.right.(*InnerNode)
	verifAssert(int(left.numKeys)+int(right.numKeys)+1 == nk && left.height == 3 && right.height == 3, "inner split: one key is promoted, heights kept")
	verifAssert(bytes.Equal(res.separator, keys[left.numKeys]), "the promoted separator is the middle key")
	for i := 0; i < int(left.numKeys); i++ {
		verifAssert(bytes.Equal(left.keys[i], keys[i]), "left keys in order")
	}
	for i := 0; i < int(right.numKeys); i++ {
		verifAssert(bytes.Equal(right.keys[i], keys[int(left.numKeys)+1+i]), "right keys in order")
	}
	for i := 0; i <= nk; i++ {
		var c []byte
		var h Hash
		var s int64
		if i <= int(left.numKeys) {
			c, h, s = left.children[i], left.childHashes[i], left.childSizes[i]
		} else {
			j := i - int(left.numKeys) - 1
			c, h, s = right.children[j], right.childHashes[j], right.childSizes[j]
		}
		verifAssert(bytes.Equal(c, children[i]) && h == hashes[i] && s == sizes[i], "the halves hold every child exactly once, in order")
	}
	verifReach("end")
}

// Ordered range iteration over a small tree built directly from nodes: a root
// with 2..3 leaves of 1..2 keys (or, shape 2, a three-level tree of four
// one-key leaves).  Keys and separators are symbolic one-byte strings subject
// only to the tree's invariant: child i of an inner node holds keys in
// [sep[i-1], sep[i]).  A separator need not be a live key (after a remove it
// is not).  Start and end bounds are nil or symbolic.
func verifC23Leaf(n int, lo []byte) (*LeafNode, [][]byte, []byte) {
	l := &LeafNode{numKeys: int16(n)}
	var ks [][]byte
	for i := 0; i < n; i++ {
		k := verifBytes("key", 1)
		if lo != nil {
			verifAssume(bytes.Compare(lo, k) <= 0) // at or above the lower separator (first key) / strictly above the previous key
			if i > 0 {
				verifAssume(bytes.Compare(lo, k) < 0)
			}
		}
		l.keys[i] = k
		ks = append(ks, k)
		lo = k
	}
	return l, ks, lo
}

func verifC23Bound(name string) []byte {
	if verifChoose(name+"nil", 2) == 1 {
		return nil
	}
	return verifBytes(name, 1)
}

func VerifC23_Iterate() {
	var root Node
	var all [][]byte
	nextSep := func(last []byte) []byte {
		s := verifBytes("sep", 1)
		verifAssume(bytes.Compare(last, s) < 0) // strictly above every key to its left
		return s
	}
	if verifChoose("shape", 2) == 0 {
		nl := 2 + verifChoose("leaves", 2)
		in := &InnerNode{numKeys: int16(nl - 1), height: 1}
		var lo []byte
		for c := 0; c < nl; c++ {
			if c > 0 {
				lo = nextSep(lo)
				in.keys[c-1] = lo
			}
			leaf, ks, last := verifC23Leaf(1+verifChoose("n", 2), lo)
			in.childNodes[c] = leaf
			all = append(all, ks...)
			lo = last
		}
		root = in
	} else {
		top := &InnerNode{numKeys: 1, height: 2}
		var lo []byte
		for g := 0; g < 2; g++ {
			in := &InnerNode{numKeys: 1, height: 1}
			for c := 0; c < 2; c++ {
				if g > 0 || c > 0 {
					lo = nextSep(lo)
					if c == 0 {
						top.keys[0] = lo
					} else {
						in.keys[0] = lo
					}
				}
				leaf, ks, last := verifC23Leaf(1, lo)
				in.childNodes[c] = leaf
				all = append(all, ks...)
				lo = last
			}
			top.childNodes[g] = in
		}
		root = top
	}
	start, end := verifC23Bound("start"), verifC23Bound("end")
	asc := verifChoose("asc", 2) == 1
	// the ordered map's answer
	var want [][]byte
	for _, k := range all {
		if (start == nil || bytes.Compare(start, k) <= 0) && (end == nil || bytes.Compare(k, end) < 0) {
			want = append(want, k)
		}
	}
	if !asc {
		for i, j := 0, len(want)-1; i < j; i, j = i+1, j-1 {
			want[i], want[j] = want[j], want[i]
		}
	}
	it := newIterator(root, start, end, asc, nil, 0)
	var got [][]byte
	for steps := 0; it.Valid() && steps <= len(all); steps++ {
		got = append(got, it.Key())
		it.Next()
	}
	verifAssert(!it.Valid(), "iteration ends after at most as many steps as there are keys")
	same := len(got) == len(want)
	for i := 0; same && i < len(got); i++ {
		same = bytes.Equal(got[i], want[i])
	}
	verifAssert(same, "range iteration yields exactly the keys of the ordered map in [start, end), in order")
	verifReach("end")
}
