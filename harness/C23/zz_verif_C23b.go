package bptree

// Harness for C23, rebalancing and copy-on-write: one treeInsert / treeRemove
// with a SYMBOLIC one-byte key on a two-level tree built directly at the
// occupancy thresholds (leaves of MinKeys, MinKeys+1 or B keys), so that the
// operation splits a leaf, borrows from either sibling, merges, or collapses
// the root.  Stored keys are concrete (2, 4, 6, ...), the probe is any byte.
// Checked: the resulting tree holds exactly the ordered map's keys in order
// with the B+ tree invariants (separator ranges, sizes, child hashes, uniform
// depth; occupancy after removes from half-full trees), the found / updated flags are right, and the ORIGINAL tree (a
// saved version) is unchanged node for node.

import "bytes"

func verifC23bLeaf(first, n int) *LeafNode {
	l := &LeafNode{numKeys: int16(n), miniTree: NewMiniMerkle(), nodeKey: &NodeKey{Version: 1, Nonce: uint32(first)}}
	for i := 0; i < n; i++ {
		v := byte(2 * (first + i + 1))
		l.keys[i] = []byte{v}
		l.valueHashes[i] = Hash{v}
		l.valueKeys[i] = []byte{0, 0, 0, 0, 0, 0, 0, 1, 0, 0, 0, v}
	}
	l.RebuildMiniMerkle()
	return l
}

func verifC23bTree(sizes []int) (*InnerNode, [][]byte) {
	in := &InnerNode{numKeys: int16(len(sizes) - 1), height: 1, miniTree: NewMiniMerkle(), nodeKey: &NodeKey{Version: 1, Nonce: 999}}
	var all [][]byte
	first := 0
	for c, n := range sizes {
		leaf := verifC23bLeaf(first, n)
		if c > 0 {
			in.keys[c-1] = copyKey(leaf.keys[0])
		}
		in.childNodes[c] = leaf
		in.childHashes[c] = leaf.Hash()
		in.childSizes[c] = int64(n)
		for i := 0; i < n; i++ {
			all = append(all, leaf.keys[i])
		}
		first += n
	}
	in.RebuildMiniMerkle()
	return in, all
}

// verifC23bCheck walks a tree, returns its keys in order and whether every
// structural invariant holds below `n` for keys in [lo, hi).
func verifC23bCheck(n Node, lo, hi []byte, isRoot bool, depth int) (keys [][]byte, bad int, height int) {
	switch x := n.(type) {
	case *LeafNode:
		if !isRoot && int(x.numKeys) < MinKeys {
			bad |= 1 // occupancy
		}
		if x.numKeys < 0 || int(x.numKeys) > B {
			return nil, 64, 0
		}
		for i := 0; i < int(x.numKeys); i++ {
			k := x.keys[i]
			if i > 0 && bytes.Compare(x.keys[i-1], k) >= 0 {
				bad |= 2 // order
			}
			if (lo != nil && bytes.Compare(k, lo) < 0) || (hi != nil && bytes.Compare(k, hi) >= 0) {
				bad |= 4 // separator range
			}
			keys = append(keys, k)
		}
		return keys, bad, 0
	case *InnerNode:
		if x.numKeys < 1 || int(x.numKeys) > B-1 || depth > 3 {
			return nil, 64, 0
		}
		h := -1
		for c := 0; c <= int(x.numKeys); c++ {
			clo, chi := lo, hi
			if c > 0 {
				clo = x.keys[c-1]
			}
			if c < int(x.numKeys) {
				chi = x.keys[c]
			}
			if clo != nil && chi != nil && bytes.Compare(clo, chi) >= 0 {
				bad |= 2
			}
			child := x.childNodes[c]
			if child == nil {
				return nil, 64, 0
			}
			ck, cbad, ch := verifC23bCheck(child, clo, chi, false, depth+1)
			bad |= cbad
			if x.childSizes[c] != int64(len(ck)) {
				bad |= 8 // sizes
			}
			if x.childHashes[c] != child.Hash() {
				bad |= 16 // child hashes
			}
			if h >= 0 && ch != h {
				bad |= 32 // depth
			}
			h = ch
			keys = append(keys, ck...)
		}
		if int(x.height) != h+1 {
			bad |= 32
		}
		return keys, bad, h + 1
	}
	return nil, 64, 0
}

func verifC23bSame(a, b [][]byte) bool {
	if len(a) != len(b) {
		return false
	}
	for i := range a {
		if !bytes.Equal(a[i], b[i]) {
			return false
		}
	}
	return true
}

func VerifC23_RemoveRebalance() {
	shapes := [][]int{
		{MinKeys, MinKeys},              // merge, root collapses to a leaf
		{MinKeys, MinKeys + 1},          // left leaf borrows from the right
		{MinKeys + 1, MinKeys},          // right leaf borrows from the left
		{MinKeys, MinKeys, MinKeys},     // merge, root keeps two children
		{MinKeys + 1, MinKeys, MinKeys}, // middle leaf: left sibling can spare
		{MinKeys, MinKeys, MinKeys + 1}, // middle leaf: only the right sibling can spare
	}
	// trees that contain the 2-key leaf a 90/10 append split leaves behind
	low := [][]int{
		{B - 1, 2},     // right leaf underflows, the left sibling can spare
		{MinKeys, 2},   // right leaf underflows, merge
		{2, MinKeys},   // left leaf underflows, merge
		{2, B, MinKeys}, // left leaf underflows, the right sibling can spare
	}
	if !verifThorough() {
		shapes = shapes[:4]
		low = low[:3]
	}
	nFull := len(shapes)
	shapes = append(shapes, low...)
	shape := verifChoose("shape", len(shapes))
	root, all := verifC23bTree(shapes[shape])
	probe := verifBytes("probe", 1)
	var want [][]byte
	present := false
	for _, k := range all {
		if bytes.Equal(k, probe) {
			present = true
		} else {
			want = append(want, k)
		}
	}
	_, badBefore, _ := verifC23bCheck(root, nil, nil, true, 0)
	verifAssume(badBefore&^1 == 0) // the harness built a well-formed tree (occupancy aside)
	newRoot, _, _, found, err := treeRemove(root, probe)
	verifAssert(err == nil, "removing from an in-memory tree does not fail")
	if err != nil {
		return
	}
	verifAssert(found == present, "remove reports whether the key was present")
	got, bad, _ := verifC23bCheck(newRoot, nil, nil, true, 0)
	verifAssert(verifC23bSame(got, want), "after a remove the tree holds exactly the ordered map's keys, in order")
	verifAssert(bad&64 == 0, "after a remove every node is well-formed")
	if shape < nFull {
		verifAssert(bad&1 == 0, "after a remove from a tree whose nodes were at least half full every non-root node still is")
	}
	verifAssert(bad&6 == 0, "after a remove keys are sorted and lie in the range their separators announce")
	verifAssert(bad&8 == 0, "after a remove child sizes equal the number of keys below")
	verifAssert(bad&16 == 0, "after a remove child hashes equal the children's hashes")
	verifAssert(bad&32 == 0, "after a remove all leaves are at the same depth")
	old, oldBad, _ := verifC23bCheck(root, nil, nil, true, 0)
	verifAssert(verifC23bSame(old, all) && oldBad == badBefore, "the tree the remove started from (a saved version) is unchanged")
	if present {
		verifReach("removed a present key")
	}
	verifReach("end")
}

func VerifC23_InsertSplit() {
	shapes := [][]int{
		{B, MinKeys}, // the left leaf is full: insert there splits it
		{MinKeys, B}, // the right leaf is full
		{B, B},
	}
	if !verifThorough() {
		shapes = shapes[:2]
	}
	root, all := verifC23bTree(shapes[verifChoose("shape", len(shapes))])
	probe := verifBytes("probe", 1)
	var want [][]byte
	present, placed := false, false
	for _, k := range all {
		if bytes.Equal(k, probe) {
			present = true
		}
		if !placed && !present && bytes.Compare(probe, k) < 0 {
			want = append(want, probe)
			placed = true
		}
		want = append(want, k)
	}
	if !placed && !present {
		want = append(want, probe)
	}
	_, badBefore, _ := verifC23bCheck(root, nil, nil, true, 0)
	verifAssume(badBefore == 0)
	newRoot, updated, _, err := treeInsert(root, probe, Hash{probe[0], 1}, []byte{0, 0, 0, 0, 0, 0, 0, 2, 0, 0, 0, probe[0]})
	verifAssert(err == nil, "inserting into an in-memory tree does not fail")
	if err != nil {
		return
	}
	verifAssert(updated == present, "insert reports whether the key already existed")
	got, bad, _ := verifC23bCheck(newRoot, nil, nil, true, 0)
	verifAssert(verifC23bSame(got, want), "after an insert the tree holds exactly the ordered map's keys, in order")
	verifAssert(bad&64 == 0, "after an insert every node is well-formed")
	// no occupancy assertion here: an insert at the end of a full leaf splits
	// it 90/10 by design (splitLeaf: "append pattern"), leaving a 2-key leaf
	verifAssert(bad&6 == 0, "after an insert keys are sorted and lie in the range their separators announce")
	verifAssert(bad&8 == 0, "after an insert child sizes equal the number of keys below")
	verifAssert(bad&16 == 0, "after an insert child hashes equal the children's hashes")
	verifAssert(bad&32 == 0, "after an insert all leaves are at the same depth")
	old, oldBad, _ := verifC23bCheck(root, nil, nil, true, 0)
	verifAssert(verifC23bSame(old, all) && oldBad == badBefore, "the tree the insert started from (a saved version) is unchanged")
	if !present {
		verifReach("inserted a new key")
	}
	verifReach("end")
}
