package types

// Harness for C36 (commit verification accepts exactly the commits with +2/3
// valid signatures). Signatures are ideal: a signature is valid for (key, msg)
// iff it is the byte string  id(key) || msg . Validator powers, the heights /
// rounds / types of the precommits and the block-id bytes are symbolic; the
// shape of the commit (length, nil entries, what each signature signs) is a
// structural choice.

import (
	"bytes"
	"encoding/binary"

	"github.com/gnolang/gno/tm2/pkg/crypto"
)

type verifC36Key struct{ id byte }

func verifC36Addr(id byte) (a crypto.Address) { a[0] = id; return }

func (k verifC36Key) Address() crypto.Address { return verifC36Addr(k.id) }
func (k verifC36Key) Bytes() []byte            { return []byte{k.id} }
func (k verifC36Key) Equals(o crypto.PubKey) bool {
	ok, same := o.(verifC36Key)
	return same && ok.id == k.id
}
func (k verifC36Key) String() string { return "verifkey" }
func (k verifC36Key) VerifyBytes(msg []byte, sig []byte) bool {
	return len(sig) == len(msg)+1 && sig[0] == k.id && bytes.Equal(sig[1:], msg)
}

func verifC36Sign(id byte, msg []byte) []byte { return append([]byte{id}, msg...) }

// Stand-in for (*Vote).SignBytes in the symbolic run only (check config
// "func_stubs"): an injective encoding of exactly the fields the canonical
// vote contains. Natively the real amino encoding runs.
func verifStubC36SignBytes(vote *Vote, chainID string) []byte {
	bz := []byte{byte(vote.Type)}
	bz = binary.BigEndian.AppendUint64(bz, uint64(vote.Height))
	bz = binary.BigEndian.AppendUint64(bz, uint64(vote.Round))
	bz = append(bz, byte(len(vote.BlockID.Hash)))
	bz = append(bz, vote.BlockID.Hash...)
	bz = binary.BigEndian.AppendUint64(bz, uint64(vote.BlockID.PartsHeader.Total))
	bz = append(bz, byte(len(vote.BlockID.PartsHeader.Hash)))
	bz = append(bz, vote.BlockID.PartsHeader.Hash...)
	bz = append(bz, chainID...)
	return bz
}

func verifC36BlockID(name string) BlockID {
	return BlockID{Hash: verifBytes(name, 1), PartsHeader: PartSetHeader{Total: 1, Hash: []byte{7}}}
}

func verifC36Set(name string, ids []byte) (*ValidatorSet, []int64) {
	vs := &ValidatorSet{}
	powers := make([]int64, len(ids))
	sum := int64(0)
	for i, id := range ids {
		p := verifNondetInt64(name)
		verifAssume(p >= 1 && p <= MaxTotalVotingPower)
		sum += p
		verifAssume(sum <= MaxTotalVotingPower)
		powers[i] = p
		vs.Validators = append(vs.Validators, NewValidator(verifC36Key{id}, p))
	}
	return vs, powers
}

type verifC36Entry struct {
	present bool
	sigOK   [6]bool // validity of the signature under key id 0..5
	blockID BlockID
	addr    byte
}

// verifC36Commit builds a commit of m entries over keys 0..n-1.
// fields: precommit type/height/round are symbolic per entry (otherwise one shared symbolic height and round, type precommit);
// sigs: the signature of each entry is a structural choice (otherwise genuine).
func verifC36Commit(chainID string, n, m int, commitID BlockID, future, fields, sigs bool) (*Commit, []verifC36Entry) {
	sharedH, sharedR := verifNondetInt64("height"), verifNondetInt("round")
	c := &Commit{BlockID: commitID}
	es := make([]verifC36Entry, m)
	for i := 0; i < m; i++ {
		if verifChoose("present", 2) == 0 {
			c.Precommits = append(c.Precommits, nil)
			continue
		}
		cs := &CommitSig{}
		cs.Type, cs.Height, cs.Round = PrecommitType, sharedH, sharedR
		if fields {
			cs.Type = SignedMsgType(verifNondetUint8("type"))
			cs.Height = verifNondetInt64("height")
			cs.Round = verifNondetInt("round")
		}
		cs.ValidatorIndex = i
		es[i].addr = byte(i)
		if future {
			// the claimed address is free: the own one, another validator's, or unknown
			es[i].addr = []byte{byte(i), byte(i+1) % 4, byte(i+2) % 4, 9}[verifChoose("addr", 4)]
		}
		cs.ValidatorAddress = verifC36Addr(es[i].addr)
		if verifChoose("forblock", 2) == 0 {
			cs.BlockID = commitID
		} else {
			cs.BlockID = verifC36BlockID("stray")
		}
		es[i].present = true
		es[i].blockID = cs.BlockID
		c.Precommits = append(c.Precommits, cs)
	}
	// signatures are made once heights/rounds are fixed: the message of entry
	// i is what a validator signs for a precommit with the COMMIT's height and
	// round and entry i's block id
	for i := 0; i < m; i++ {
		cs := c.Precommits[i]
		if cs == nil {
			continue
		}
		v := &Vote{Type: PrecommitType, Height: c.Height(), Round: c.Round(), BlockID: cs.BlockID}
		msg := v.SignBytes(chainID)
		signer := byte(i)
		kind := 0
		if sigs && future {
			kind = []int{0, 1, 4}[verifChoose("sig", 3)]
		} else if sigs {
			kind = verifChoose("sig", 5)
		}
		switch kind {
		case 0: // genuine signature of validator i
		case 1: // signed by the claimed address' key (differs from i only in the future-commit harness)
			signer = es[i].addr
		case 2: // right key, other block id
			w := *v
			w.BlockID = verifC36BlockID("signed")
			verifAssume(!w.BlockID.Equals(v.BlockID))
			msg = w.SignBytes(chainID)
		case 3: // right key, other chain
			msg = v.SignBytes(chainID + "x")
		case 4: // no signature
			msg = nil
			signer = 200
		}
		if signer == 200 {
			cs.Signature = nil
		} else {
			cs.Signature = verifC36Sign(signer, msg)
		}
		good := v.SignBytes(chainID)
		for k := 0; k < 6; k++ {
			es[i].sigOK[k] = cs.Signature != nil && bytes.Equal(cs.Signature, verifC36Sign(byte(k), good))
		}
	}
	return c, es
}

func verifC36WellFormed(c *Commit, es []verifC36Entry) (ok bool, height int64, round int) {
	if len(c.BlockID.Hash) == 0 && c.BlockID.PartsHeader.IsZero() {
		return false, 0, 0
	}
	if len(c.Precommits) == 0 {
		return false, 0, 0
	}
	first := true
	for _, p := range c.Precommits {
		if p == nil {
			continue
		}
		if first {
			height, round, first = p.Height, p.Round, false
		}
		if p.Type != PrecommitType || p.Height != height || p.Round != round {
			return false, height, round
		}
	}
	return true, height, round
}

func verifC36MaxN() int {
	if verifThorough() {
		return 4
	}
	return 3
}

// Structure: symbolic type/height/round per precommit, any commit length and
// block id; signatures genuine.
func VerifC36_VerifyCommit_Structure() { verifC36VerifyCommit(true) }

// Signatures and tally: every entry nil / genuine / wrongly signed, for the
// block or for a stray block; powers symbolic.
func VerifC36_VerifyCommit_Signatures() { verifC36VerifyCommit(false) }

func verifC36VerifyCommit(structure bool) {
	n := 1 + verifChoose("n", verifC36MaxN())
	ids := []byte{0, 1, 2, 3}[:n]
	vals, powers := verifC36Set("power", ids)
	want := verifC36BlockID("want")
	commitID := want
	m := n
	if structure {
		switch verifChoose("commitid", 3) {
		case 1:
			commitID = verifC36BlockID("other")
		case 2:
			commitID = BlockID{}
		}
		m = n - 1 + verifChoose("m", 3)
	}
	commit, es := verifC36Commit("chain", n, m, commitID, false, structure, !structure)
	height := verifNondetInt64("wantHeight")

	var err error
	p := verifPanics(func() { err = vals.VerifyCommit("chain", want, height, commit) })
	verifAssert(!p, "VerifyCommit never panics")
	if p {
		return
	}
	wf, ch, _ := verifC36WellFormed(commit, es)
	expect := wf && m == n && ch == height && want.Equals(commit.BlockID)
	tally, total := int64(0), int64(0)
	if expect {
		for i := 0; i < n; i++ {
			total += powers[i]
			if !es[i].present {
				continue
			}
			if !es[i].sigOK[i] {
				expect = false
			}
			if want.Equals(es[i].blockID) {
				tally += powers[i]
			}
		}
	}
	// more than two thirds, in exact arithmetic: 3*tally > 2*total (no overflow: total <= MaxInt64/8)
	expect = expect && 3*tally > 2*total
	verifAssert((err == nil) == expect, "VerifyCommit accepts exactly the well-formed commits whose valid precommits for the block id hold more than 2/3 of the power")
	verifReach("end")
}

func VerifC36_VerifyFutureCommit() {
	maxn, maxOld := 2, byte(3)
	if verifThorough() {
		maxn, maxOld = 3, 3
	}
	n := 1 + verifChoose("n", maxn)
	ids := []byte{0, 1, 2, 3}[:n]
	newSet, newPowers := verifC36Set("newpower", ids)
	// old set: a sub/superset of the key ids 0..3, sorted by address
	var oldIDs []byte
	for id := byte(0); id < maxOld; id++ {
		if verifChoose("old", 2) == 1 {
			oldIDs = append(oldIDs, id)
		}
	}
	if len(oldIDs) == 0 {
		return
	}
	oldSet, oldPowers := verifC36Set("oldpower", oldIDs)
	want := verifC36BlockID("want")
	commit, es := verifC36Commit("chain", n, n, want, true, false, true)
	height := verifNondetInt64("wantHeight")

	var err error
	p := verifPanics(func() { err = oldSet.VerifyFutureCommit(newSet, "chain", want, height, commit) })
	verifAssert(!p, "VerifyFutureCommit never panics")
	if p {
		return
	}
	wf, ch, _ := verifC36WellFormed(commit, es)
	expect := wf && ch == height
	tally, total := int64(0), int64(0)
	for i := 0; i < n && expect; i++ {
		total += newPowers[i]
		if !es[i].present {
			continue
		}
		if !es[i].sigOK[i] {
			expect = false
		}
		if want.Equals(es[i].blockID) {
			tally += newPowers[i]
		}
	}
	expect = expect && 3*tally > 2*total
	// old set: each old validator counted once, at its first entry
	oldTally, oldTotal := int64(0), int64(0)
	for _, pw := range oldPowers {
		oldTotal += pw
	}
	counted := map[byte]bool{}
	for i := 0; i < n && expect; i++ {
		if !es[i].present {
			continue
		}
		k := -1
		for j, id := range oldIDs {
			if id == es[i].addr {
				k = j
			}
		}
		if k < 0 || counted[es[i].addr] {
			continue
		}
		counted[es[i].addr] = true
		if !es[i].sigOK[es[i].addr] {
			expect = false
		}
		if want.Equals(es[i].blockID) {
			oldTally += oldPowers[k]
		}
	}
	expect = expect && 3*oldTally > 2*oldTotal
	verifAssert((err == nil) == expect, "VerifyFutureCommit additionally requires more than 2/3 of the old set's power, each old validator counted once")
	verifReach("end")
}
