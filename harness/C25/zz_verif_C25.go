package merkle

// Harness for C25 (Merkle proofs are sound and complete): the simple Merkle
// list proofs used for blocks, transactions, parts and results.
// SHA-256 is an uninterpreted injective function in the symbolic run (the
// collision-resistance assumption); natively it is the real hash.

import "bytes"

func verifC25MaxLeaves() int {
	if verifThorough() {
		return 7
	}
	return 5
}

// verifC25Items returns n leaves with symbolic content; lengths follow one of
// a few patterns (empty leaves, 1- and 2-byte leaves, equal-length leaves).
func verifC25Items(n int) [][]byte {
	pat := verifChoose("lens", 3)
	items := make([][]byte, n)
	for i := range items {
		l := 1
		switch pat {
		case 1:
			l = i % 3
		case 2:
			l = 2
		}
		items[i] = verifBytes("item", l)
	}
	return items
}

func verifC25Leaf() []byte {
	switch verifChoose("leaflen", 4) {
	case 0:
		return verifBytes("leaf", 0)
	case 1:
		return verifBytes("leaf", 1)
	case 2:
		return verifBytes("leaf", 2)
	}
	// long enough to look like an inner node (prefix || 32 || 32)
	return verifBytes("leaf", 64)
}

func verifC25IndexOf(items [][]byte, leaf []byte) (member bool) {
	for _, it := range items {
		if bytes.Equal(it, leaf) {
			member = true
		}
	}
	return
}

// Completeness and exclusivity of generated proofs.
func VerifC25_Generated() {
	n := 1 + verifChoose("n", verifC25MaxLeaves())
	items := verifC25Items(n)
	root, proofs := SimpleProofsFromByteSlices(items)
	verifAssert(bytes.Equal(root, SimpleHashFromByteSlices(items)), "proof root = SimpleHashFromByteSlices")
	verifAssert(bytes.Equal(root, SimpleHashFromByteSlicesIterative(items)), "iterative root = recursive root")
	verifAssert(len(proofs) == n, "one proof per item")
	i := verifChoose("i", n)
	p := proofs[i]
	verifAssert(p.Total == n && p.Index == i, "proof carries total and index")
	verifAssert(p.ValidateBasic() == nil, "generated proof is well-formed")
	verifAssert(p.Verify(root, items[i]) == nil, "generated proof verifies for its own item")
	verifAssert(bytes.Equal(p.ComputeRootHash(), root), "ComputeRootHash reproduces the root")

	switch verifChoose("alter", 6) {
	case 0: // another value
		leaf := verifC25Leaf()
		verifAssume(!bytes.Equal(leaf, items[i]))
		verifAssert(p.Verify(root, leaf) != nil, "a different value does not verify")
	case 1: // another root
		r2 := verifBytes("root", 32)
		verifAssume(!bytes.Equal(r2, root))
		verifAssert(p.Verify(r2, items[i]) != nil, "a different root does not verify")
	case 2: // altered leaf hash
		lh := verifBytes("leafhash", 32)
		verifAssume(!bytes.Equal(lh, p.LeafHash))
		q := *p
		q.LeafHash = lh
		verifAssert(q.Verify(root, items[i]) != nil, "an altered leaf hash does not verify")
	case 3: // one altered aunt
		if len(p.Aunts) == 0 {
			break
		}
		k := verifChoose("aunt", len(p.Aunts))
		a := verifBytes("auntbytes", 32)
		verifAssume(!bytes.Equal(a, p.Aunts[k]))
		q := *p
		q.Aunts = append([][]byte(nil), p.Aunts...)
		q.Aunts[k] = a
		verifAssert(q.Verify(root, items[i]) != nil, "an altered aunt does not verify")
	case 4: // dropped or duplicated aunt, swapped aunts
		if len(p.Aunts) == 0 {
			break
		}
		q := *p
		switch verifChoose("shape", 3) {
		case 0:
			q.Aunts = p.Aunts[:len(p.Aunts)-1]
		case 1:
			q.Aunts = append(append([][]byte(nil), p.Aunts...), p.Aunts[len(p.Aunts)-1])
		case 2:
			if len(p.Aunts) < 2 {
				return
			}
			q.Aunts = append([][]byte(nil), p.Aunts...)
			q.Aunts[0], q.Aunts[1] = q.Aunts[1], q.Aunts[0]
			verifAssume(!bytes.Equal(q.Aunts[0], q.Aunts[1]))
		}
		verifAssert(q.Verify(root, items[i]) != nil, "a proof with aunts dropped, duplicated or swapped does not verify")
	case 5: // the proof of item i used for item j
		j := verifChoose("j", n)
		if j == i {
			break
		}
		verifAssume(!bytes.Equal(items[j], items[i]))
		verifAssert(p.Verify(root, items[j]) != nil, "the proof of one item does not verify another item")
		// and with index/total kept but the other item's leaf hash
		q := *p
		q.LeafHash = proofs[j].LeafHash
		verifAssert(q.Verify(root, items[j]) != nil, "another item does not verify at this index")
	}
	verifReach("end")
}

// Soundness against an arbitrary proof object whose hashes are taken from the
// tree itself (every node hash of the tree is available to the adversary) -
// these counterexamples replay natively.
func verifC25Pool(items [][]byte) (pool [][]byte, inner [][]byte) {
	var walk func(lo, hi int) []byte
	walk = func(lo, hi int) []byte {
		var h []byte
		if hi-lo == 1 {
			h = leafHash(items[lo])
		} else {
			k := getSplitPoint(hi - lo)
			l, r := walk(lo, lo+k), walk(lo+k, hi)
			h = innerHash(l, r)
			inner = append(inner, append(append([]byte(nil), l...), r...))
		}
		pool = append(pool, h)
		return h
	}
	walk(0, len(items))
	return
}

func VerifC25_ForgedFromTreeHashes() {
	maxn := 3
	if verifThorough() {
		maxn = 5
	}
	n := 1 + verifChoose("n", maxn)
	items := make([][]byte, n)
	for i := range items {
		items[i] = verifBytes("item", 1)
	}
	root := SimpleHashFromByteSlices(items)
	pool, inner := verifC25Pool(items)
	sp := &SimpleProof{}
	sp.Total = verifNondetInt("total")
	sp.Index = verifNondetInt("index")
	leaf := verifBytes("leaf", 1)
	if k := verifChoose("leafkind", 1+len(inner)); k > 0 {
		// second-preimage attempt: the claimed value is the payload of an
		// inner node (left hash || right hash)
		leaf = inner[k-1]
	}
	sp.LeafHash = leafHash(leaf)
	na := verifChoose("naunts", 3)
	for k := 0; k < na; k++ {
		sp.Aunts = append(sp.Aunts, pool[verifChoose("aunt", len(pool))])
	}
	var err error
	p := verifPanics(func() { err = sp.Verify(root, leaf) })
	verifAssert(!p, "Verify never panics")
	if !p && err == nil {
		verifAssert(verifC25IndexOf(items, leaf), "an accepted value is a member of the list")
		if sp.Total == n {
			verifAssert(sp.Index >= 0 && sp.Index < n && bytes.Equal(items[sp.Index], leaf), "with the right total, an accepted value is the item at the proof's index")
		}
		verifAssert(sp.Total == n, "an accepted proof carries the list's total")
	}
	verifReach("end")
}

// Soundness against arbitrary bytes (every hash field 32 unconstrained bytes).
func VerifC25_ForgedArbitrary() {
	maxn, maxa := 3, 3
	if verifThorough() {
		maxn, maxa = 6, 4
	}
	n := 1 + verifChoose("n", maxn)
	items := make([][]byte, n)
	for i := range items {
		items[i] = verifBytes("item", 1)
	}
	root := SimpleHashFromByteSlices(items)
	sp := &SimpleProof{}
	sp.Total = verifNondetInt("total")
	sp.Index = verifNondetInt("index")
	verifAssume(sp.Total <= 1<<20)
	leaf := verifC25Leaf()
	sp.LeafHash = verifBytes("leafhash", 32)
	na := verifChoose("naunts", maxa)
	for k := 0; k < na; k++ {
		sp.Aunts = append(sp.Aunts, verifBytes("aunt", 32))
	}
	var err error
	p := verifPanics(func() { err = sp.Verify(root, leaf) })
	verifAssert(!p, "Verify never panics")
	if !p && err == nil {
		verifAssert(verifC25IndexOf(items, leaf), "an accepted value is a member of the list")
		if sp.Total == n {
			verifAssert(sp.Index >= 0 && sp.Index < n && bytes.Equal(items[sp.Index], leaf), "with the right total, an accepted value is the item at the proof's index")
		}
	}
	verifReach("end")
}

func VerifC25_SplitPoint() {
	n := verifNondetInt("n")
	verifAssume(n >= 2)
	k := getSplitPoint(n)
	verifAssert(k >= 1 && k < n && k&(k-1) == 0 && k >= n-k, "split point is the largest power of two strictly below n")
	verifReach("end")
}
