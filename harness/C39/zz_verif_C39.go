package types

// Harness for C39 (block part sets reassemble exactly the proposed block).
// SHA-256 is an uninterpreted injective function in the symbolic run.

import (
	"bytes"

	"github.com/gnolang/gno/tm2/pkg/crypto/merkle"
)

func verifC39Setup() (data []byte, partSize, total int, ps *PartSet) {
	maxLen := 5
	if verifThorough() {
		maxLen = 7
	}
	partSize = 1 + verifChoose("partSize", 3)
	n := 1 + verifChoose("len", maxLen)
	data = verifBytes("data", n)
	ps = NewPartSetFromData(data, partSize)
	total = (n + partSize - 1) / partSize
	return
}

func verifC39ReadAll(ps *PartSet, bufSize int) []byte {
	r := ps.GetReader()
	var out []byte
	buf := make([]byte, bufSize)
	for guard := 0; guard < 64; guard++ {
		k, err := r.Read(buf)
		out = append(out, buf[:k]...)
		if err != nil {
			return out
		}
	}
	verifAssert(false, "reader terminates")
	return out
}

// Splitting, then adding the parts in any order (with repeats) reproduces the data.
func VerifC39_Reassemble() {
	data, partSize, total, ps := verifC39Setup()
	verifAssert(ps.Total() == total && ps.Count() == total && ps.IsComplete(), "a set built from data is complete")
	chunks := make([][]byte, total)
	for i := 0; i < total; i++ {
		p := ps.GetPart(i)
		chunks[i] = p.Bytes
		verifAssert(p.Index == i && len(p.Bytes) <= partSize && len(p.Bytes) > 0, "part i carries chunk i")
		verifAssert(p.ValidateBasic() == nil, "generated part is well-formed")
	}
	verifAssert(bytes.Equal(ps.Hash(), merkle.SimpleHashFromByteSlices(chunks)), "header hash is the Merkle root of the chunks")
	verifAssert(bytes.Equal(bytes.Join(chunks, nil), data), "chunks concatenate to the data")
	bs := []int{1, 2, len(data), len(data) + 3}[verifChoose("buf", 4)]
	verifAssert(bytes.Equal(verifC39ReadAll(ps, bs), data), "reading the sender's set returns the data")

	// receiving side
	rs := NewPartSetFromHeader(ps.Header())
	verifAssert(rs.HasHeader(ps.Header()) && rs.Count() == 0 && (rs.IsComplete() == (total == 0)), "empty set from header")
	seen := make([]bool, total)
	distinct := 0
	steps := total + 1
	if total > 3 {
		steps = total // permutations with one repeat get large; repeats are covered for total <= 3
	}
	for s := 0; s < steps; s++ {
		idx := verifChoose("idx", total)
		var added bool
		var err error
		p := verifPanics(func() { added, err = rs.AddPart(ps.GetPart(idx)) })
		verifAssert(!p && err == nil, "adding a genuine part never fails")
		verifAssert(added == !seen[idx], "a part is added exactly once; a duplicate changes nothing")
		if !seen[idx] {
			seen[idx] = true
			distinct++
		}
		verifAssert(rs.Count() == distinct, "count = number of distinct parts added")
		verifAssert(rs.IsComplete() == (distinct == total), "complete exactly when every index was added")
		ba := rs.BitArray()
		for i := 0; i < total; i++ {
			verifAssert(ba.GetIndex(i) == seen[i] && (rs.GetPart(i) != nil) == seen[i], "bit array and parts reflect the added indices")
		}
	}
	if distinct == total {
		verifAssert(bytes.Equal(verifC39ReadAll(rs, bs), data), "the reassembled bytes equal the original data")
		verifAssert(bytes.Equal(rs.Hash(), ps.Hash()), "same hash")
	}
	verifReach("end")
}

// One adversarial part against a partially filled set. The forged part is
// derived from genuine parts (these witnesses replay natively) ...
func VerifC39_Adversarial() { verifC39Adversarial(false) }

// ... or consists of unconstrained bytes and hashes.
func VerifC39_AdversarialArbitrary() { verifC39Adversarial(true) }

func verifC39Adversarial(arbitrary bool) {
	_, partSize, total, ps := verifC39Setup()
	rs := NewPartSetFromHeader(ps.Header())
	present := make([]bool, total)
	j := verifChoose("j", total)
	// already-present parts: none / all / all but j / only j (thorough: every subset)
	pat := -1
	if !verifThorough() {
		pat = verifChoose("present", 4)
	}
	for i := 0; i < total; i++ {
		var in bool
		switch pat {
		case -1:
			in = verifChoose("present", 2) == 1
		case 0:
			in = false
		case 1:
			in = true
		case 2:
			in = i != j
		case 3:
			in = i == j
		}
		if in {
			rs.AddPart(ps.GetPart(i))
			present[i] = true
		}
	}
	g := ps.GetPart(j)
	f := &Part{Index: g.Index, Bytes: g.Bytes, Proof: g.Proof}
	forge := 6
	if !arbitrary {
		forge = verifChoose("forge", 7)
		if forge == 6 {
			forge = 7
		}
	}
	switch forge {
	case 7: // a genuine part re-labelled with another index and total
		f.Index = verifNondetInt("index")
		f.Proof.Index = f.Index
		f.Proof.Total = verifNondetInt("ptotal")
	case 0:
		f.Index = verifNondetInt("index")
	case 1:
		f.Proof.Index = verifNondetInt("pindex")
	case 2:
		f.Proof.Total = verifNondetInt("ptotal")
	case 3:
		f.Index = verifNondetInt("index")
		f.Proof.Index = f.Index
	case 4:
		f.Bytes = verifBytes("bytes", verifChoose("blen", partSize+1))
	case 5: // another part's bytes/proof under this index
		k := verifChoose("k", total)
		o := ps.GetPart(k)
		f.Bytes = o.Bytes
		if verifChoose("proofToo", 2) == 1 {
			f.Proof = o.Proof
			f.Proof.Index = j
		}
	case 6: // everything arbitrary
		f.Index = verifNondetInt("index")
		f.Proof.Index = verifNondetInt("pindex")
		f.Proof.Total = verifNondetInt("ptotal")
		f.Bytes = verifBytes("bytes", verifChoose("blen", partSize+1))
		f.Proof.LeafHash = verifBytes("leafhash", 32)
		na := verifChoose("naunts", 3)
		f.Proof.Aunts = nil
		for a := 0; a < na; a++ {
			f.Proof.Aunts = append(f.Proof.Aunts, verifBytes("aunt", 32))
		}
	}
	// the reactor validates the message before handing the part over
	verifAssume(f.ValidateBasic() == nil)
	count := rs.Count()
	var added bool
	var err error
	p := verifPanics(func() { added, err = rs.AddPart(f) })
	verifAssert(!p, "AddPart never panics on a validated part")
	if p {
		return
	}
	if added {
		verifAssert(err == nil, "added implies no error")
		verifAssert(f.Index >= 0 && f.Index < total, "an accepted part has an index in range")
		if f.Index >= 0 && f.Index < total {
			verifAssert(!present[f.Index], "an accepted part was not present before")
			verifAssert(bytes.Equal(f.Bytes, ps.GetPart(f.Index).Bytes), "an accepted part carries exactly the original bytes of its index")
			present[f.Index] = true
		}
		verifAssert(rs.Count() == count+1, "count grows by one")
	} else {
		verifAssert(rs.Count() == count, "a rejected part leaves the count unchanged")
	}
	for i := 0; i < total; i++ {
		got := rs.GetPart(i)
		verifAssert((got != nil) == present[i], "set membership changes only by the accepted part")
		if got != nil {
			verifAssert(bytes.Equal(got.Bytes, ps.GetPart(i).Bytes), "stored parts are the original chunks")
		}
	}
	verifReach("end")
}
