package params

// Harness for C13 (parameters are written only by their owners), part 1: the
// key a realm's parameter write lands under. The realm path and the key are
// SYMBOLIC byte strings (lengths are structural choices).

import (
	gno "github.com/gnolang/gno/gnovm/pkg/gnolang"
	"github.com/gnolang/gno/gnovm/stdlibs/internal/execctx"
)

// stand-ins (check config "func_stubs", symbolic run only)
var verifC13Realm string

func verifStubC13CurrentRealm(m *gno.Machine) (string, string) { return "addr", verifC13Realm }
func verifStubC13PanicString(m *gno.Machine, s string)         { panic(s) }

func verifC13NoColon(s string) bool {
	for i := 0; i < len(s); i++ {
		if s[i] == ':' {
			return false
		}
	}
	return true
}

func verifC13Pkey(realm, key string) (out string, panicked bool) {
	verifC13Realm = realm
	// natively (no stand-ins) the machine below makes the real
	// execctx.CurrentRealm answer `realm`: run stage, one base frame whose
	// package is the realm
	// The machine's storage realm (m.Realm) is another realm's, as it is
	// during a non-crossing call into an object borrowed from that realm: the
	// parameter namespace must follow the current realm, not the storage realm.
	m := &gno.Machine{Stage: gno.StageRun, Context: execctx.ExecContext{},
		Realm:  &gno.Realm{Path: "gno.land/r/borrowed"},
		Frames: []gno.Frame{{LastPackage: &gno.PackageValue{PkgPath: realm}}}}
	panicked = verifPanics(func() { out = pkey(m, key) })
	return
}

func VerifC13_RealmKeyNamespace() {
	maxLen := 3
	if verifThorough() {
		maxLen = 4
	}
	r1 := verifString("realm1", 1+verifChoose("realm1.len", maxLen))
	k1 := verifString("key1", verifChoose("key1.len", maxLen+1))
	// realm paths are package paths: they never contain ':' (enforced where packages are added)
	verifAssume(verifC13NoColon(r1))
	p1, bad1 := verifC13Pkey(r1, k1)
	verifAssert(bad1 == (len(k1) == 0 || !verifC13NoColon(k1)), "an empty key or a key containing ':' is rejected, every other key is accepted")
	if bad1 {
		return
	}
	want := "vm:" + r1 + ":" + k1
	verifAssert(p1 == want, "a realm's parameter lands under vm:<its own realm path>:<key>")

	// a second realm writing a second key
	r2 := verifString("realm2", 1+verifChoose("realm2.len", maxLen))
	k2 := verifString("key2", 1+verifChoose("key2.len", maxLen))
	verifAssume(verifC13NoColon(r2) && verifC13NoColon(k2))
	p2, bad2 := verifC13Pkey(r2, k2)
	verifAssert(!bad2, "a valid key is accepted")
	if !bad2 && (r1 != r2 || k1 != k2) {
		verifAssert(p1 != p2, "different realms (or different keys) never share a parameter key: no realm can overwrite another realm's parameter")
	}
	verifReach("end")
}
