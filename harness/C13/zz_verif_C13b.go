package params

// Harness for C13, part 2: the params keeper's side. Every key is filed under
// the module named before its first ':', a write to a module's key is
// validated by that module's registered keeper (or refused if there is none),
// and distinct keys have distinct store keys.

import (
	"bytes"

	"github.com/gnolang/gno/tm2/pkg/sdk"
)

type verifC13Keeper struct {
	name  string
	calls *[]string
}

func (k verifC13Keeper) WillSetParam(ctx sdk.Context, key string, value any) {
	*k.calls = append(*k.calls, k.name+"|"+key)
}

func VerifC13_ModulePrefix() {
	maxLen := 4
	if verifThorough() {
		maxLen = 6
	}
	key := verifString("key", verifChoose("len", maxLen+1))
	prefix, raw := parsePrefix(key)
	// reference: position of the first ':'
	first := -1
	for i := len(key) - 1; i >= 0; i-- {
		if key[i] == ':' {
			first = i
		}
	}
	if first < 0 {
		verifAssert(prefix == "" && raw == key, "a key without ':' has no module prefix")
	} else {
		verifAssert(prefix == key[:first] && raw == key[first+1:], "the module is what precedes the first ':'")
	}
	// the realm namespace of part 1 is always filed under module "vm"
	if len(key) >= 3 && key[0] == 'v' && key[1] == 'm' && key[2] == ':' {
		verifAssert(prefix == "vm", "keys built by a realm write (vm:<realm>:<key>) belong to module vm")
	}

	// validation dispatch
	var calls []string
	pk := ParamsKeeper{kprs: map[string]ParamfulKeeper{}}
	pk.Register("vm", verifC13Keeper{"vm", &calls})
	pk.Register("bank", verifC13Keeper{"bank", &calls})
	p := verifPanics(func() { pk.validate(sdk.Context{}, key, 1) })
	switch {
	case first <= 0:
		// no ':' at all, or an empty module name (":x"): not a module parameter.
		// (Realm writes cannot produce such keys: SDKParams requires a
		// non-empty registered module name before the first ':'.)
		verifAssert(!p && len(calls) == 0, "a key without a module name is not validated by any module")
	case prefix == "vm" || prefix == "bank":
		verifAssert(!p && len(calls) == 1 && calls[0] == prefix+"|"+raw, "a module key is validated by exactly that module's keeper, with the key behind the prefix")
	default:
		verifAssert(p && len(calls) == 0, "a key of an unregistered module is refused before anything is written")
	}

	// store keys
	key2 := verifString("key2", verifChoose("len2", maxLen+1))
	if key != key2 {
		verifAssert(!bytes.Equal(storeKey(key), storeKey(key2)), "distinct parameter keys have distinct store keys")
	}
	verifAssert(bytes.HasPrefix(storeKey(key), []byte(StoreKeyPrefix)), "store keys live under the params prefix")
	verifReach("end")
}
