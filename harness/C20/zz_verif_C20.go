package amino

// Harness for C20 (amino encoding): the primitive encoders / decoders that
// every message is built from. Values are unconstrained; byte strings handed
// to the decoders are arbitrary up to the stated length.

import "bytes"

type verifC20W struct{ b []byte }

func (w *verifC20W) Write(p []byte) (int, error) { w.b = append(w.b, p...); return len(p), nil }

func verifC20Rev(b []byte) []byte {
	r := make([]byte, len(b))
	for i := range b {
		r[len(b)-1-i] = b[i]
	}
	return r
}

// after encoding: the three encoders (Writer, Prepend, AppendReversed) agree
func verifC20Same(bz []byte, prep func(buf []byte, off int) int, rev func(buf []byte) []byte) {
	buf := make([]byte, 24)
	off := prep(buf, 24)
	verifAssert(24-off == len(bz) && bytes.Equal(buf[off:], bz), "Prepend* writes the same bytes as Encode*")
	r := rev(nil)
	verifAssert(bytes.Equal(verifC20Rev(r), bz), "Append*Reversed writes the same bytes reversed")
}

func verifC20Tail(bz []byte) []byte {
	// trailing bytes must not influence decoding
	return append(append([]byte(nil), bz...), verifBytes("tail", verifChoose("tail", 3))...)
}

func VerifC20_Uvarint() {
	u := verifNondetUint64("u")
	w := &verifC20W{}
	verifAssert(EncodeUvarint(w, u) == nil, "encode")
	verifAssert(len(w.b) == UvarintSize(u), "UvarintSize = encoded length")
	verifC20Same(w.b, func(b []byte, o int) int { return PrependUvarint(b, o, u) }, func(b []byte) []byte { return AppendUvarintReversed(b, u) })
	v, n, err := DecodeUvarint(verifC20Tail(w.b))
	verifAssert(err == nil && v == u && n == len(w.b), "DecodeUvarint(EncodeUvarint(u)) = u, consuming exactly the encoding")
	verifReach("end")
}

func VerifC20_Varint() {
	i := verifNondetInt64("i")
	w := &verifC20W{}
	verifAssert(EncodeVarint(w, i) == nil, "encode")
	verifAssert(len(w.b) == VarintSize(i), "VarintSize = encoded length")
	verifC20Same(w.b, func(b []byte, o int) int { return PrependVarint(b, o, i) }, func(b []byte) []byte { return AppendVarintReversed(b, i) })
	v, n, err := DecodeVarint(verifC20Tail(w.b))
	verifAssert(err == nil && v == i && n == len(w.b), "DecodeVarint(EncodeVarint(i)) = i")
	verifReach("end")
}

func VerifC20_PlainVarint() {
	i := verifNondetInt64("i")
	w := &verifC20W{}
	verifAssert(EncodePlainVarint(w, i) == nil, "encode")
	verifAssert(len(w.b) == PlainVarintSize(i), "PlainVarintSize = encoded length")
	verifC20Same(w.b, func(b []byte, o int) int { return PrependPlainVarint(b, o, i) }, func(b []byte) []byte { return AppendPlainVarintReversed(b, i) })
	v, n, err := DecodePlainVarint(verifC20Tail(w.b))
	verifAssert(err == nil && v == i && n == len(w.b), "DecodePlainVarint(EncodePlainVarint(i)) = i")
	i32 := verifNondetInt32("i32")
	w2 := &verifC20W{}
	verifAssert(EncodePlainVarint32(w2, i32) == nil, "encode")
	v32, n32, err := DecodePlainVarint32(verifC20Tail(w2.b))
	verifAssert(err == nil && v32 == i32 && n32 == len(w2.b), "DecodePlainVarint32(EncodePlainVarint32(i)) = i")
	verifReach("end")
}

func VerifC20_SmallVarints() {
	switch verifChoose("type", 5) {
	case 0:
		i := verifNondetInt8("i")
		w := &verifC20W{}
		EncodeVarint8(w, i)
		v, n, err := DecodeVarint8(verifC20Tail(w.b))
		verifAssert(err == nil && v == i && n == len(w.b), "int8 round trip")
		// a wider value is refused, never truncated
		x := verifNondetInt64("x")
		w2 := &verifC20W{}
		EncodeVarint(w2, x)
		v, _, err = DecodeVarint8(w2.b)
		verifAssert((err == nil) == (x >= -128 && x <= 127), "DecodeVarint8 accepts exactly the int8 range")
		verifAssert(err != nil || int64(v) == x, "and returns the value unchanged")
	case 1:
		i := verifNondetInt16("i")
		w := &verifC20W{}
		EncodeVarint16(w, i)
		v, n, err := DecodeVarint16(verifC20Tail(w.b))
		verifAssert(err == nil && v == i && n == len(w.b), "int16 round trip")
		x := verifNondetInt64("x")
		w2 := &verifC20W{}
		EncodeVarint(w2, x)
		v, _, err = DecodeVarint16(w2.b)
		verifAssert((err == nil) == (x >= -32768 && x <= 32767), "DecodeVarint16 accepts exactly the int16 range")
		verifAssert(err != nil || int64(v) == x, "and returns the value unchanged")
	case 2:
		i := verifNondetUint8("i")
		w := &verifC20W{}
		EncodeUvarint8(w, i)
		v, n, err := DecodeUvarint8(verifC20Tail(w.b))
		verifAssert(err == nil && v == i && n == len(w.b), "uint8 round trip")
		x := verifNondetUint64("x")
		w2 := &verifC20W{}
		EncodeUvarint(w2, x)
		v, _, err = DecodeUvarint8(w2.b)
		verifAssert((err == nil) == (x <= 255), "DecodeUvarint8 accepts exactly the uint8 range")
		verifAssert(err != nil || uint64(v) == x, "and returns the value unchanged")
	case 3:
		i := verifNondetUint16("i")
		w := &verifC20W{}
		EncodeUvarint16(w, i)
		v, n, err := DecodeUvarint16(verifC20Tail(w.b))
		verifAssert(err == nil && v == i && n == len(w.b), "uint16 round trip")
		x := verifNondetUint64("x")
		w2 := &verifC20W{}
		EncodeUvarint(w2, x)
		v, _, err = DecodeUvarint16(w2.b)
		verifAssert((err == nil) == (x <= 65535), "DecodeUvarint16 accepts exactly the uint16 range")
		verifAssert(err != nil || uint64(v) == x, "and returns the value unchanged")
	case 4:
		i := verifNondetUint32("i")
		w := &verifC20W{}
		EncodeUvarint32(w, i)
		v, n, err := DecodeUvarint32(verifC20Tail(w.b))
		verifAssert(err == nil && v == i && n == len(w.b), "uint32 round trip")
		x := verifNondetUint64("x")
		w2 := &verifC20W{}
		EncodeUvarint(w2, x)
		v, _, err = DecodeUvarint32(w2.b)
		verifAssert((err == nil) == (x <= 0xFFFFFFFF), "DecodeUvarint32 accepts exactly the uint32 range")
		verifAssert(err != nil || uint64(v) == x, "and returns the value unchanged")
	}
	verifReach("end")
}

func VerifC20_Fixed() {
	switch verifChoose("type", 6) {
	case 0:
		i := verifNondetInt32("i")
		w := &verifC20W{}
		EncodeInt32(w, i)
		verifC20Same(w.b, func(b []byte, o int) int { return PrependInt32(b, o, i) }, func(b []byte) []byte { return AppendInt32Reversed(b, i) })
		v, n, err := DecodeInt32(verifC20Tail(w.b))
		verifAssert(err == nil && v == i && n == 4 && len(w.b) == 4, "int32 fixed round trip")
	case 1:
		i := verifNondetInt64("i")
		w := &verifC20W{}
		EncodeInt64(w, i)
		verifC20Same(w.b, func(b []byte, o int) int { return PrependInt64(b, o, i) }, func(b []byte) []byte { return AppendInt64Reversed(b, i) })
		v, n, err := DecodeInt64(verifC20Tail(w.b))
		verifAssert(err == nil && v == i && n == 8 && len(w.b) == 8, "int64 fixed round trip")
	case 2:
		i := verifNondetUint32("i")
		w := &verifC20W{}
		EncodeUint32(w, i)
		verifC20Same(w.b, func(b []byte, o int) int { return PrependUint32(b, o, i) }, func(b []byte) []byte { return AppendUint32Reversed(b, i) })
		v, n, err := DecodeUint32(verifC20Tail(w.b))
		verifAssert(err == nil && v == i && n == 4 && len(w.b) == 4, "uint32 fixed round trip")
	case 3:
		i := verifNondetUint64("i")
		w := &verifC20W{}
		EncodeUint64(w, i)
		verifC20Same(w.b, func(b []byte, o int) int { return PrependUint64(b, o, i) }, func(b []byte) []byte { return AppendUint64Reversed(b, i) })
		v, n, err := DecodeUint64(verifC20Tail(w.b))
		verifAssert(err == nil && v == i && n == 8 && len(w.b) == 8, "uint64 fixed round trip")
	case 4:
		b := verifNondetBool("b")
		w := &verifC20W{}
		EncodeBool(w, b)
		verifC20Same(w.b, func(bf []byte, o int) int { return PrependBool(bf, o, b) }, func(bf []byte) []byte { return AppendBoolReversed(bf, b) })
		v, n, err := DecodeBool(verifC20Tail(w.b))
		verifAssert(err == nil && v == b && n == 1 && len(w.b) == 1, "bool round trip")
	case 5:
		b := verifNondetUint8("b")
		w := &verifC20W{}
		EncodeByte(w, b)
		verifC20Same(w.b, func(bf []byte, o int) int { return PrependByte(bf, o, b) }, func(bf []byte) []byte { return AppendByteReversed(bf, b) })
		v, n, err := DecodeByte(verifC20Tail(w.b))
		verifAssert(err == nil && v == b && n == 1 && len(w.b) == 1, "byte round trip")
	}
	verifReach("end")
}

func VerifC20_ByteSlice() {
	l := verifChoose("len", 4)
	bz := verifBytes("bz", l)
	w := &verifC20W{}
	verifAssert(EncodeByteSlice(w, bz) == nil, "encode")
	verifAssert(len(w.b) == ByteSliceSize(bz), "ByteSliceSize = encoded length")
	verifC20Same(w.b, func(b []byte, o int) int { return PrependByteSlice(b, o, bz) }, func(b []byte) []byte { return AppendByteSliceReversed(b, bz) })
	v, n, err := DecodeByteSlice(verifC20Tail(w.b))
	verifAssert(err == nil && bytes.Equal(v, bz) && n == len(w.b), "byte slice round trip")
	s, n, err := DecodeString(verifC20Tail(w.b))
	verifAssert(err == nil && s == string(bz) && n == len(w.b), "string round trip")
	verifReach("end")
}

func VerifC20_TimeDuration() {
	s, ns := verifNondetInt64("s"), verifNondetInt32("ns")
	if verifChoose("kind", 2) == 0 {
		w := &verifC20W{}
		err := EncodeTimeValue(w, s, ns)
		valid := s >= -62135596800 && s < 253402300800 && ns >= 0 && ns <= 999999999
		verifAssert((err == nil) == valid, "EncodeTimeValue accepts exactly years 1..9999 with nanos in [0, 1e9)")
		if err == nil {
			buf := make([]byte, 32)
			off, perr := PrependTimeValue(buf, 32, s, ns)
			verifAssert(perr == nil && bytes.Equal(buf[off:], w.b), "PrependTimeValue writes the same bytes")
			s2, ns2, n, derr := DecodeTimeValue(w.b)
			verifAssert(derr == nil && s2 == s && ns2 == ns && n == len(w.b), "time value round trip")
		}
	} else {
		w := &verifC20W{}
		err := EncodeDurationValue(w, s, ns)
		valid := s >= -315576000000 && s <= 315576000000 && ns >= -999999999 && ns <= 999999999 &&
			!(s > 0 && ns < 0) && !(s < 0 && ns > 0)
		verifAssert((err == nil) == valid, "EncodeDurationValue accepts exactly the protobuf Duration range with matching signs")
		if err == nil {
			buf := make([]byte, 32)
			off, perr := PrependDurationValue(buf, 32, s, ns)
			verifAssert(perr == nil && bytes.Equal(buf[off:], w.b), "PrependDurationValue writes the same bytes")
			s2, ns2, n, derr := DecodeDurationValue(w.b)
			verifAssert(derr == nil && s2 == s && ns2 == ns && n == len(w.b), "duration value round trip")
		}
	}
	verifReach("end")
}

// Decoders on arbitrary input: a value or an error, never a panic; an
// accepted value re-encodes and decodes to itself; n stays within the input.
func VerifC20_DecodeArbitrary() {
	maxLen := 6
	if verifThorough() {
		maxLen = 11
	}
	l := verifChoose("len", maxLen+1)
	bz := verifBytes("in", l)
	switch verifChoose("decoder", 8) {
	case 0:
		var v uint64
		var n int
		var err error
		p := verifPanics(func() { v, n, err = DecodeUvarint(bz) })
		verifAssert(!p, "DecodeUvarint never panics")
		if !p && err == nil {
			verifAssert(n >= 1 && n <= l, "consumed length within the input")
			w := &verifC20W{}
			EncodeUvarint(w, v)
			v2, _, err2 := DecodeUvarint(w.b)
			verifAssert(err2 == nil && v2 == v && len(w.b) <= n, "an accepted uvarint re-encodes (no longer) and decodes to itself")
		}
	case 1:
		var v int64
		var n int
		var err error
		p := verifPanics(func() { v, n, err = DecodeVarint(bz) })
		verifAssert(!p, "DecodeVarint never panics")
		if !p && err == nil {
			verifAssert(n >= 1 && n <= l, "consumed length within the input")
			w := &verifC20W{}
			EncodeVarint(w, v)
			v2, _, err2 := DecodeVarint(w.b)
			verifAssert(err2 == nil && v2 == v && len(w.b) <= n, "an accepted varint re-encodes and decodes to itself")
		}
	case 2:
		var v []byte
		var n int
		var err error
		p := verifPanics(func() { v, n, err = DecodeByteSlice(bz) })
		verifAssert(!p, "DecodeByteSlice never panics")
		if !p && err == nil {
			verifAssert(n >= 1 && n <= l && len(v) < n, "consumed length within the input")
			verifAssert(bytes.Equal(v, bz[n-len(v):n]), "the slice is the bytes after the length prefix")
		}
	case 3:
		var s int64
		var ns int32
		var n int
		var err error
		p := verifPanics(func() { s, ns, n, err = DecodeTimeValue(bz) })
		verifAssert(!p, "DecodeTimeValue never panics")
		if !p && err == nil {
			verifAssert(n == l, "a time value consumes its whole input")
			w := &verifC20W{}
			verifAssert(EncodeTimeValue(w, s, ns) == nil, "an accepted time value is valid")
			s2, ns2, _, err2 := DecodeTimeValue(w.b)
			verifAssert(err2 == nil && s2 == s && ns2 == ns, "and re-encodes and decodes to itself")
		}
	case 4:
		var s int64
		var ns int32
		var n int
		var err error
		p := verifPanics(func() { s, ns, n, err = DecodeDurationValue(bz) })
		verifAssert(!p, "DecodeDurationValue never panics")
		if !p && err == nil {
			verifAssert(n == l, "a duration value consumes its whole input")
			w := &verifC20W{}
			verifAssert(EncodeDurationValue(w, s, ns) == nil, "an accepted duration value is valid")
			s2, ns2, _, err2 := DecodeDurationValue(w.b)
			verifAssert(err2 == nil && s2 == s && ns2 == ns, "and re-encodes and decodes to itself")
		}
	case 5:
		var b bool
		var err error
		p := verifPanics(func() { b, _, err = DecodeBool(bz) })
		verifAssert(!p, "DecodeBool never panics")
		if !p && err == nil {
			verifAssert(l >= 1 && ((b && bz[0] == 1) || (!b && bz[0] == 0)), "only 0 and 1 are booleans")
		}
	case 6:
		p := verifPanics(func() { DecodeInt32(bz); DecodeInt64(bz); DecodeUint32(bz); DecodeUint64(bz); DecodeByte(bz) })
		verifAssert(!p, "fixed-width decoders never panic")
		_, _, e4 := DecodeUint32(bz)
		_, _, e8 := DecodeUint64(bz)
		verifAssert((e4 == nil) == (l >= 4) && (e8 == nil) == (l >= 8), "fixed-width decoders need exactly their width")
	case 7:
		p := verifPanics(func() {
			DecodeVarint8(bz)
			DecodeVarint16(bz)
			DecodeUvarint8(bz)
			DecodeUvarint16(bz)
			DecodeUvarint32(bz)
			DecodePlainVarint(bz)
			DecodePlainVarint32(bz)
			DecodeString(bz)
		})
		verifAssert(!p, "narrow varint decoders never panic")
	}
	verifReach("end")
}
