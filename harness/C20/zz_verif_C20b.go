package types

// Harness for C20, part 2: generated (genproto2) binary encoders / decoders of
// message types whose fields are scalars and byte strings: PartSetHeader and
// BlockID (which nests a PartSetHeader). Field values are symbolic.

import "bytes"

func verifC20SameBytes(a, b []byte) bool { return len(a) == len(b) && bytes.Equal(a, b) }

// Total is symbolic in [-2^20, 2^20) (a zigzag varint of 1..3 bytes): the
// encoded size is then a symbolic value over a small range, which keeps the
// buffer-size case split cheap. Full-width integers are covered by the
// primitive harnesses of part 1.
func verifC20PSH(tag string) PartSetHeader {
	t := verifNondetInt(tag + ".total")
	verifAssume(t >= -(1 << 20))
	verifAssume(t < 1<<20)
	return PartSetHeader{Total: t, Hash: verifBytes(tag+".hash", verifChoose(tag+".hashlen", 3))}
}

func VerifC20_Gen_PartSetHeader() {
	v := verifC20PSH("psh")
	size, err := v.SizeBinary2(nil)
	verifAssert(err == nil && size >= 0, "SizeBinary2 succeeds")
	buf := make([]byte, size)
	off, err := v.MarshalBinary2(nil, buf, size)
	verifAssert(err == nil && off == 0, "MarshalBinary2 fills exactly the predicted size")
	var out PartSetHeader
	verifAssert(out.UnmarshalBinary2(nil, buf, 0) == nil, "the generated decoder accepts the generated encoding")
	verifAssert(out.Total == v.Total && verifC20SameBytes(out.Hash, v.Hash), "decode(encode(v)) = v (PartSetHeader)")
	verifReach("end")
}

func VerifC20_Gen_BlockID() {
	v := BlockID{Hash: verifBytes("hash", verifChoose("hashlen", 3)), PartsHeader: verifC20PSH("parts")}
	size, err := v.SizeBinary2(nil)
	verifAssert(err == nil && size >= 0, "SizeBinary2 succeeds")
	buf := make([]byte, size)
	off, err := v.MarshalBinary2(nil, buf, size)
	verifAssert(err == nil && off == 0, "MarshalBinary2 fills exactly the predicted size")
	var out BlockID
	verifAssert(out.UnmarshalBinary2(nil, buf, 0) == nil, "the generated decoder accepts the generated encoding")
	verifAssert(verifC20SameBytes(out.Hash, v.Hash) && out.PartsHeader.Total == v.PartsHeader.Total && verifC20SameBytes(out.PartsHeader.Hash, v.PartsHeader.Hash), "decode(encode(v)) = v (BlockID with its nested header)")
	verifReach("end")
}

// arbitrary bytes: a value or an error, never a panic; an accepted value
// re-encodes (canonically, no longer than the input) and decodes to itself
func VerifC20_Gen_DecodeArbitrary() {
	maxLen := 5
	if verifThorough() {
		maxLen = 8
	}
	l := verifChoose("len", maxLen+1)
	bz := verifBytes("in", l)
	if verifChoose("type", 2) == 0 {
		var v PartSetHeader
		var err error
		p := verifPanics(func() { err = v.UnmarshalBinary2(nil, bz, 0) })
		verifAssert(!p, "PartSetHeader.UnmarshalBinary2 never panics")
		if !p && err == nil {
			size, _ := v.SizeBinary2(nil)
			verifAssert(size <= l, "the canonical encoding of an accepted value is no longer than the input")
			buf := make([]byte, size)
			off, merr := v.MarshalBinary2(nil, buf, size)
			var w PartSetHeader
			verifAssert(merr == nil && off == 0 && w.UnmarshalBinary2(nil, buf, 0) == nil && w.Total == v.Total && verifC20SameBytes(w.Hash, v.Hash), "an accepted value re-encodes and decodes to itself")
		}
	} else {
		var v BlockID
		var err error
		p := verifPanics(func() { err = v.UnmarshalBinary2(nil, bz, 0) })
		verifAssert(!p, "BlockID.UnmarshalBinary2 never panics")
		if !p && err == nil {
			size, _ := v.SizeBinary2(nil)
			verifAssert(size <= l, "the canonical encoding of an accepted value is no longer than the input")
			buf := make([]byte, size)
			off, merr := v.MarshalBinary2(nil, buf, size)
			var w BlockID
			verifAssert(merr == nil && off == 0 && w.UnmarshalBinary2(nil, buf, 0) == nil && w.Equals(v), "an accepted value re-encodes and decodes to itself")
		}
	}
	verifReach("end")
}
