package softfloat

// Harness for C05 (software floating point is bit-exact IEEE-754 binary32/64,
// round to nearest even). Operands are unconstrained bit patterns; the oracle
// is the SMT-LIB FloatingPoint theory in the symbolic run and the hardware
// natively. NaN results are compared by class, everything else bit for bit.

func VerifC05_Neg() {
	a := verifNondetUint64("a")
	verifAssert(verifF64NegIs(Fneg64(a), a), "Fneg64")
	b := verifNondetUint32("b")
	verifAssert(verifF32NegIs(Fneg32(b), b), "Fneg32")
	verifReach("end")
}

func VerifC05_Compare64() {
	a, b := verifNondetUint64("a"), verifNondetUint64("b")
	verifAssert(Feq64(a, b) == verifF64Eq(a, b), "Feq64")
	verifAssert(Fgt64(a, b) == verifF64Lt(b, a), "Fgt64")
	verifAssert(Fge64(a, b) == verifF64Le(b, a), "Fge64")
	verifAssert(Flt64(a, b) == verifF64Lt(a, b), "Flt64")
	verifAssert(Fle64(a, b) == verifF64Le(a, b), "Fle64")
	cmp, isnan := Fcmp64(a, b)
	verifAssert(isnan == (verifF64IsNaN(a) || verifF64IsNaN(b)), "Fcmp64 flags NaN operands")
	if !isnan {
		verifAssert((cmp == -1) == verifF64Lt(a, b) && (cmp == 0) == verifF64Eq(a, b) && (cmp == 1) == verifF64Lt(b, a), "Fcmp64 orders the operands")
	}
	verifReach("end")
}

func VerifC05_Compare32() {
	a, b := verifNondetUint32("a"), verifNondetUint32("b")
	verifAssert(Feq32(a, b) == verifF32Eq(a, b), "Feq32")
	verifAssert(Fgt32(a, b) == verifF32Lt(b, a), "Fgt32")
	verifAssert(Fge32(a, b) == verifF32Le(b, a), "Fge32")
	verifAssert(Flt32(a, b) == verifF32Lt(a, b), "Flt32")
	verifAssert(Fle32(a, b) == verifF32Le(a, b), "Fle32")
	verifReach("end")
}

func VerifC05_Widen() {
	a := verifNondetUint32("a")
	verifAssert(verifF32To64Is(F32to64(a), a), "F32to64 is exact")
	verifReach("end")
}

func VerifC05_Narrow() {
	a := verifNondetUint64("a")
	verifAssert(verifF64To32Is(F64to32(a), a), "F64to32 rounds to nearest even")
	verifReach("end")
}

func VerifC05_IntToFloat() {
	switch verifChoose("conv", 8) {
	case 0:
		x := verifNondetInt64("x")
		verifAssert(verifI64ToF64Is(Fint64to64(x), x), "Fint64to64")
	case 1:
		x := verifNondetInt64("x")
		verifAssert(verifI64ToF32Is(Fint64to32(x), x), "Fint64to32")
	case 2:
		x := verifNondetInt32("x")
		verifAssert(verifI32ToF64Is(Fint32to64(x), x), "Fint32to64")
	case 3:
		x := verifNondetInt32("x")
		verifAssert(verifI32ToF32Is(Fint32to32(x), x), "Fint32to32")
	case 4:
		x := verifNondetUint64("x")
		verifAssert(verifU64ToF64Is(Fuint64to64(x), x), "Fuint64to64")
	case 5:
		x := verifNondetUint64("x")
		verifAssert(verifU64ToF32Is(Fuint64to32(x), x), "Fuint64to32")
	case 6:
		x := verifNondetInt64("x")
		verifAssert(verifI64ToF64Is(Fintto64(x), x), "Fintto64")
	case 7:
		x := verifNondetInt64("x")
		verifAssert(verifI64ToF32Is(Fintto32(x), x), "Fintto32")
	}
	verifReach("end")
}

// Conversions to integers are defined for in-range operands (the statement
// excludes the others): truncation toward zero.
func VerifC05_FloatToInt() {
	switch verifChoose("conv", 7) {
	case 0:
		a := verifNondetUint64("a")
		verifAssume(verifF64FitsI64(a))
		verifAssert(F64toint64(a) == verifF64ToI64(a), "F64toint64 truncates toward zero")
	case 1:
		a := verifNondetUint64("a")
		verifAssume(verifF64FitsI32(a))
		verifAssert(F64toint32(a) == verifF64ToI32(a), "F64toint32 truncates toward zero")
	case 2:
		a := verifNondetUint64("a")
		verifAssume(verifF64FitsU64(a))
		verifAssert(F64touint64(a) == verifF64ToU64(a), "F64touint64 truncates toward zero")
	case 3:
		a := verifNondetUint32("a")
		verifAssume(verifF32FitsI64(a))
		verifAssert(F32toint64(a) == verifF32ToI64(a), "F32toint64 truncates toward zero")
	case 4:
		a := verifNondetUint32("a")
		verifAssume(verifF32FitsI32(a))
		verifAssert(F32toint32(a) == verifF32ToI32(a), "F32toint32 truncates toward zero")
	case 5:
		a := verifNondetUint32("a")
		verifAssume(verifF32FitsU64(a))
		verifAssert(F32touint64(a) == verifF32ToU64(a), "F32touint64 truncates toward zero")
	case 6:
		a := verifNondetUint64("a")
		verifAssume(verifF64FitsI64(a))
		v, _ := F64toint(a)
		verifAssert(v == verifF64ToI64(a), "F64toint truncates toward zero")
	}
	verifReach("end")
}

// ---- addition / subtraction, partitioned
//
// The operand space of Fadd64 is split into cells by a structural choice and
// each cell is decided for ALL operands in it. A cell fixes the class of each
// operand (special: NaN/Inf/zero; subnormal; normal) and, for two finite
// non-zero operands, the difference d of the effective exponents and which
// operand is larger. Inside a cell the rounding/normalisation loops of
// fpack64 fork the path further (one path per number of cancelled bits).

const verifC05MaxD = 56 // beyond this difference the smaller operand is only a sticky bit

func verifC05EffExp64(x uint64) int64 {
	e := int64(x>>52) & 0x7ff
	if e == 0 {
		e = 1
	}
	return e
}

// verifC05Cell64 constrains (a, b) to cell k of the partition and reports
// whether k is a valid cell number.
//   k = 0                      : at least one operand is NaN, Inf or zero
//   k = 1 + 2*d + s, d<=MaxD   : finite non-zero, eff.exp(a) - eff.exp(b) = d, s=0 same sign / s=1 opposite signs
//   k = 1 + 2*(MaxD+1) + s     : finite non-zero, difference > MaxD
// and the mirrored cells (b larger) follow for d >= 1.
func verifC05Cells64() int { return 1 + 2*(verifC05MaxD+2) + 2*(verifC05MaxD+1) }

func verifC05Cell64(k int, a, b uint64) {
	ea, eb := int64(a>>52)&0x7ff, int64(b>>52)&0x7ff
	ma, mb := a&(1<<52-1), b&(1<<52-1)
	special := ea == 0x7ff || eb == 0x7ff || (ea == 0 && ma == 0) || (eb == 0 && mb == 0)
	if k == 0 {
		verifAssume(special)
		return
	}
	verifAssume(!special)
	k--
	mirrored := false
	if k >= 2*(verifC05MaxD+2) {
		k -= 2 * (verifC05MaxD + 2)
		mirrored = true
		k += 2 // mirrored cells start at d = 1
	}
	d, s := int64(k/2), k%2
	diff := verifC05EffExp64(a) - verifC05EffExp64(b)
	if mirrored {
		diff = -diff
	}
	if d <= verifC05MaxD {
		verifAssume(diff == d)
	} else {
		verifAssume(diff > verifC05MaxD)
	}
	verifAssume(((a^b)>>63 == 1) == (s == 1))
}

func verifC05AddCell(k int) {
	a, b := verifNondetUint64("a"), verifNondetUint64("b")
	verifC05Cell64(k, a, b)
	verifAssert(verifF64AddIs(Fadd64(a, b), a, b), "Fadd64 is the correctly rounded sum")
	verifReach("end")
}

// quick: the special-value cell and a fixed, stated subset of the cells
func VerifC05_Add64_Cells() {
	quick := []int{0, 1 + 2*1, 1 + 2*1 + 1, 1 + 2*2, 1 + 2*2 + 1, 1 + 2*30, 1 + 2*30 + 1, 1 + 2*(verifC05MaxD+1), 1 + 2*(verifC05MaxD+1) + 1}
	if verifThorough() {
		verifC05AddCell(verifChoose("cell", verifC05Cells64()))
		return
	}
	verifC05AddCell(quick[verifChoose("cell", len(quick))])
}

func VerifC05_Sub64_Cells() {
	quick := []int{0, 1 + 2*1, 1 + 2*1 + 1, 1 + 2*3, 1 + 2*3 + 1}
	k := 0
	if verifThorough() {
		k = verifChoose("cell", verifC05Cells64())
	} else {
		k = quick[verifChoose("cell", len(quick))]
	}
	a, b := verifNondetUint64("a"), verifNondetUint64("b")
	verifC05Cell64(k, a, b)
	verifAssert(verifF64SubIs(Fsub64(a, b), a, b), "Fsub64 is the correctly rounded difference")
	verifReach("end")
}

// ---- binary32 addition / subtraction (implemented through binary64)

const verifC05MaxD32 = 27

func verifC05EffExp32(x uint32) int64 {
	e := int64(x>>23) & 0xff
	if e == 0 {
		e = 1
	}
	return e
}

func verifC05Cells32() int { return 1 + 2*(verifC05MaxD32+2) + 2*(verifC05MaxD32+1) }

func verifC05Cell32(k int, a, b uint32) {
	ea, eb := int64(a>>23)&0xff, int64(b>>23)&0xff
	ma, mb := a&(1<<23-1), b&(1<<23-1)
	special := ea == 0xff || eb == 0xff || (ea == 0 && ma == 0) || (eb == 0 && mb == 0)
	if k == 0 {
		verifAssume(special)
		return
	}
	verifAssume(!special)
	k--
	mirrored := false
	if k >= 2*(verifC05MaxD32+2) {
		k -= 2 * (verifC05MaxD32 + 2)
		mirrored = true
		k += 2
	}
	d, s := int64(k/2), k%2
	diff := verifC05EffExp32(a) - verifC05EffExp32(b)
	if mirrored {
		diff = -diff
	}
	if d <= verifC05MaxD32 {
		verifAssume(diff == d)
	} else {
		verifAssume(diff > verifC05MaxD32)
	}
	verifAssume(((a^b)>>31 == 1) == (s == 1))
}

func VerifC05_AddSub32_Cells() {
	quick := []int{0, 1 + 2*1, 1 + 2*1 + 1, 1 + 2*10, 1 + 2*10 + 1, 1 + 2*(verifC05MaxD32+1) + 1}
	k := 0
	if verifThorough() {
		k = verifChoose("cell", verifC05Cells32())
	} else {
		k = quick[verifChoose("cell", len(quick))]
	}
	a, b := verifNondetUint32("a"), verifNondetUint32("b")
	verifC05Cell32(k, a, b)
	if verifChoose("op", 2) == 0 {
		verifAssert(verifF32AddIs(Fadd32(a, b), a, b), "Fadd32 is the correctly rounded sum")
	} else {
		verifAssert(verifF32SubIs(Fsub32(a, b), a, b), "Fsub32 is the correctly rounded difference")
	}
	verifReach("end")
}
