package softfloat

// Harness for C05 (software floating point is bit-exact IEEE-754 binary32/64,
// round to nearest even). Operands are unconstrained bit patterns; the oracle
// is the SMT-LIB FloatingPoint theory in the symbolic run and the hardware
// natively. NaN results are compared by class, everything else bit for bit.

import "math/big"

func VerifC05_Neg() {
	a := verifNondetUint64("a")
	verifAssert(verifF64NegIs(Fneg64(a), a), "Fneg64")
	b := verifNondetUint32("b")
	verifAssert(verifF32NegIs(Fneg32(b), b), "Fneg32")
	verifReach("end")
}

func VerifC05_Compare64() {
	a, b := verifNondetUint64("a"), verifNondetUint64("b")
	verifAssert(Feq64(a, b) == verifF64Eq(a, b), "Feq64")
	verifAssert(Fgt64(a, b) == verifF64Lt(b, a), "Fgt64")
	verifAssert(Fge64(a, b) == verifF64Le(b, a), "Fge64")
	verifAssert(Flt64(a, b) == verifF64Lt(a, b), "Flt64")
	verifAssert(Fle64(a, b) == verifF64Le(a, b), "Fle64")
	cmp, isnan := Fcmp64(a, b)
	verifAssert(isnan == (verifF64IsNaN(a) || verifF64IsNaN(b)), "Fcmp64 flags NaN operands")
	if !isnan {
		verifAssert((cmp == -1) == verifF64Lt(a, b) && (cmp == 0) == verifF64Eq(a, b) && (cmp == 1) == verifF64Lt(b, a), "Fcmp64 orders the operands")
	}
	verifReach("end")
}

func VerifC05_Compare32() {
	a, b := verifNondetUint32("a"), verifNondetUint32("b")
	verifAssert(Feq32(a, b) == verifF32Eq(a, b), "Feq32")
	verifAssert(Fgt32(a, b) == verifF32Lt(b, a), "Fgt32")
	verifAssert(Fge32(a, b) == verifF32Le(b, a), "Fge32")
	verifAssert(Flt32(a, b) == verifF32Lt(a, b), "Flt32")
	verifAssert(Fle32(a, b) == verifF32Le(a, b), "Fle32")
	verifReach("end")
}

func VerifC05_Widen() {
	a := verifNondetUint32("a")
	verifAssert(verifF32To64Is(F32to64(a), a), "F32to64 is exact")
	verifReach("end")
}

func VerifC05_Narrow() {
	a := verifNondetUint64("a")
	verifAssert(verifF64To32Is(F64to32(a), a), "F64to32 rounds to nearest even")
	verifReach("end")
}

func VerifC05_IntToFloat() {
	switch verifChoose("conv", 8) {
	case 0:
		x := verifNondetInt64("x")
		verifAssert(verifI64ToF64Is(Fint64to64(x), x), "Fint64to64")
	case 1:
		x := verifNondetInt64("x")
		verifAssert(verifI64ToF32Is(Fint64to32(x), x), "Fint64to32")
	case 2:
		x := verifNondetInt32("x")
		verifAssert(verifI32ToF64Is(Fint32to64(x), x), "Fint32to64")
	case 3:
		x := verifNondetInt32("x")
		verifAssert(verifI32ToF32Is(Fint32to32(x), x), "Fint32to32")
	case 4:
		x := verifNondetUint64("x")
		verifAssert(verifU64ToF64Is(Fuint64to64(x), x), "Fuint64to64")
	case 5:
		x := verifNondetUint64("x")
		verifAssert(verifU64ToF32Is(Fuint64to32(x), x), "Fuint64to32")
	case 6:
		x := verifNondetInt64("x")
		verifAssert(verifI64ToF64Is(Fintto64(x), x), "Fintto64")
	case 7:
		x := verifNondetInt64("x")
		verifAssert(verifI64ToF32Is(Fintto32(x), x), "Fintto32")
	}
	verifReach("end")
}

// Conversions to integers are defined for in-range operands (the statement
// excludes the others): truncation toward zero.
func VerifC05_FloatToInt() {
	switch verifChoose("conv", 7) {
	case 0:
		a := verifNondetUint64("a")
		verifAssume(verifF64FitsI64(a))
		verifAssert(F64toint64(a) == verifF64ToI64(a), "F64toint64 truncates toward zero")
	case 1:
		a := verifNondetUint64("a")
		verifAssume(verifF64FitsI32(a))
		verifAssert(F64toint32(a) == verifF64ToI32(a), "F64toint32 truncates toward zero")
	case 2:
		a := verifNondetUint64("a")
		verifAssume(verifF64FitsU64(a))
		verifAssert(F64touint64(a) == verifF64ToU64(a), "F64touint64 truncates toward zero")
	case 3:
		a := verifNondetUint32("a")
		verifAssume(verifF32FitsI64(a))
		verifAssert(F32toint64(a) == verifF32ToI64(a), "F32toint64 truncates toward zero")
	case 4:
		a := verifNondetUint32("a")
		verifAssume(verifF32FitsI32(a))
		verifAssert(F32toint32(a) == verifF32ToI32(a), "F32toint32 truncates toward zero")
	case 5:
		a := verifNondetUint32("a")
		verifAssume(verifF32FitsU64(a))
		verifAssert(F32touint64(a) == verifF32ToU64(a), "F32touint64 truncates toward zero")
	case 6:
		a := verifNondetUint64("a")
		verifAssume(verifF64FitsI64(a))
		v, _ := F64toint(a)
		verifAssert(v == verifF64ToI64(a), "F64toint truncates toward zero")
	}
	verifReach("end")
}

// ---- addition / subtraction, partitioned
//
// The operand space of Fadd64 is split into cells by a structural choice and
// each cell is decided for ALL operands in it. A cell fixes the class of each
// operand (special: NaN/Inf/zero; subnormal; normal) and, for two finite
// non-zero operands, the difference d of the effective exponents and which
// operand is larger. Inside a cell the rounding/normalisation loops of
// fpack64 fork the path further (one path per number of cancelled bits).

const verifC05MaxD = 56 // beyond this difference the smaller operand is only a sticky bit

func verifC05EffExp64(x uint64) int64 {
	e := int64(x>>52) & 0x7ff
	if e == 0 {
		e = 1
	}
	return e
}

// verifC05Cell64 constrains (a, b) to cell k of the partition and reports
// whether k is a valid cell number.
//   k = 0                      : at least one operand is NaN, Inf or zero
//   k = 1 + 2*d + s, d<=MaxD   : finite non-zero, eff.exp(a) - eff.exp(b) = d, s=0 same sign / s=1 opposite signs
//   k = 1 + 2*(MaxD+1) + s     : finite non-zero, difference > MaxD
// and the mirrored cells (b larger) follow for d >= 1.
func verifC05Cells64() int { return 1 + 2*(verifC05MaxD+2) + 2*(verifC05MaxD+1) }

func verifC05Cell64(k int, a, b uint64) {
	ea, eb := int64(a>>52)&0x7ff, int64(b>>52)&0x7ff
	ma, mb := a&(1<<52-1), b&(1<<52-1)
	special := ea == 0x7ff || eb == 0x7ff || (ea == 0 && ma == 0) || (eb == 0 && mb == 0)
	if k == 0 {
		verifAssume(special)
		return
	}
	verifAssume(!special)
	k--
	mirrored := false
	if k >= 2*(verifC05MaxD+2) {
		k -= 2 * (verifC05MaxD + 2)
		mirrored = true
		k += 2 // mirrored cells start at d = 1
	}
	d, s := int64(k/2), k%2
	diff := verifC05EffExp64(a) - verifC05EffExp64(b)
	if mirrored {
		diff = -diff
	}
	if d <= verifC05MaxD {
		verifAssume(diff == d)
	} else {
		verifAssume(diff > verifC05MaxD)
	}
	verifAssume(((a^b)>>63 == 1) == (s == 1))
}

func verifC05AddCell(k int) {
	a, b := verifNondetUint64("a"), verifNondetUint64("b")
	verifC05Cell64(k, a, b)
	verifAssert(verifF64AddIs(Fadd64(a, b), a, b), "Fadd64 is the correctly rounded sum")
	verifReach("end")
}

// quick: the special-value cell and a fixed, stated subset of the cells;
// thorough: the special cell, every cell with the first operand larger
// (d = 0..56 and d > 56, both sign relations) and the mirrored cells for
// d in {1, 2, 3, 10, 30, 56, >56}.
func verifC05ThoroughCells64() []int {
	cells := []int{0}
	for k := 1; k < 1+2*(verifC05MaxD+2); k++ {
		cells = append(cells, k)
	}
	base := 1 + 2*(verifC05MaxD+2)
	for _, d := range []int{1, 2, 3, 10, 30, verifC05MaxD, verifC05MaxD + 1} {
		cells = append(cells, base+2*(d-1), base+2*(d-1)+1)
	}
	return cells
}

func VerifC05_Add64_Cells() {
	// d = 54, 55 opposite signs: the boundary where the smaller operand stops being more than a sticky bit
	quick := []int{0, 1 + 2*1 + 1, 1 + 2*2, 1 + 2*30 + 1, 1 + 2*54 + 1, 1 + 2*55 + 1, 1 + 2*(verifC05MaxD+1)}
	if verifThorough() {
		quick = verifC05ThoroughCells64()
	}
	verifC05AddCell(quick[verifChoose("cell", len(quick))])
}

// Fsub64 (implemented as fadd64(f, fneg64(g))) agrees with the oracle on a
// subset of the cells.
func VerifC05_Sub64_Cells() {
	a, b := verifNondetUint64("a"), verifNondetUint64("b")
	quick := []int{0, 1 + 2*1, 1 + 2*3 + 1}
	if verifThorough() {
		quick = []int{0, 1, 2, 1 + 2*1, 1 + 2*1 + 1, 1 + 2*3, 1 + 2*3 + 1, 1 + 2*20, 1 + 2*20 + 1}
	}
	verifC05Cell64(quick[verifChoose("cell", len(quick))], a, b)
	verifAssert(verifF64SubIs(Fsub64(a, b), a, b), "Fsub64 is the correctly rounded difference")
	verifReach("end")
}

// ---- binary32 addition / subtraction (implemented through binary64)

const verifC05MaxD32 = 27

func verifC05EffExp32(x uint32) int64 {
	e := int64(x>>23) & 0xff
	if e == 0 {
		e = 1
	}
	return e
}

func verifC05Cells32() int { return 1 + 2*(verifC05MaxD32+2) + 2*(verifC05MaxD32+1) }

func verifC05Cell32(k int, a, b uint32) {
	ea, eb := int64(a>>23)&0xff, int64(b>>23)&0xff
	ma, mb := a&(1<<23-1), b&(1<<23-1)
	special := ea == 0xff || eb == 0xff || (ea == 0 && ma == 0) || (eb == 0 && mb == 0)
	if k == 0 {
		verifAssume(special)
		return
	}
	verifAssume(!special)
	k--
	mirrored := false
	if k >= 2*(verifC05MaxD32+2) {
		k -= 2 * (verifC05MaxD32 + 2)
		mirrored = true
		k += 2
	}
	d, s := int64(k/2), k%2
	diff := verifC05EffExp32(a) - verifC05EffExp32(b)
	if mirrored {
		diff = -diff
	}
	if d <= verifC05MaxD32 {
		verifAssume(diff == d)
	} else {
		verifAssume(diff > verifC05MaxD32)
	}
	verifAssume(((a^b)>>31 == 1) == (s == 1))
}

func VerifC05_AddSub32_Cells() {
	quick := []int{0, 1 + 2*1, 1 + 2*1 + 1, 1 + 2*10, 1 + 2*10 + 1, 1 + 2*(verifC05MaxD32+1) + 1}
	k := 0
	if verifThorough() {
		k = verifChoose("cell", verifC05Cells32())
	} else {
		k = quick[verifChoose("cell", len(quick))]
	}
	a, b := verifNondetUint32("a"), verifNondetUint32("b")
	verifC05Cell32(k, a, b)
	if verifChoose("op", 2) == 0 {
		verifAssert(verifF32AddIs(Fadd32(a, b), a, b), "Fadd32 is the correctly rounded sum")
	} else {
		verifAssert(verifF32SubIs(Fsub32(a, b), a, b), "Fsub32 is the correctly rounded difference")
	}
	verifReach("end")
}

// ---- multiplication and division: compositional
//
// The solvers do not equate two multiplier (or divider) circuits, so Fmul64
// and Fdiv64 are decided in three solver-checked steps whose composition is
// an argument stated in DESIGN.md / the evidence:
//   U  Funpack64(f) = (sign, mant, exp) with f = ±mant·2^(exp-52) exactly
//   M  mullu(u, v) is the exact 128-bit product; divlu(u1,u0,v) the exact
//      quotient and remainder (integer rendering, operands by 32-bit halves)
//   R  with mullu / divlu replaced by ANY result in the range M allows,
//      Fmul64 / Fdiv64 return the correctly rounded value of that result
//      scaled by the operands' exponents (and the IEEE special-case table
//      holds for NaN, Inf and zero operands).

func VerifC05_Unpack64() {
	f := verifNondetUint64("f")
	sign, mant, exp, inf, nan := Funpack64(f)
	e := (f >> 52) & 0x7ff
	m := f & (1<<52 - 1)
	verifAssert(nan == (e == 0x7ff && m != 0) && inf == (e == 0x7ff && m == 0), "Funpack64 classifies NaN and Inf")
	if !nan && !inf {
		verifAssert(sign == f&(1<<63), "Funpack64 sign")
		verifAssert(mant == 0 || (mant >= 1<<52 && mant < 1<<53), "Funpack64 normalises the mantissa to 53 bits")
		verifAssert(exp >= -1100 && exp <= 1100, "Funpack64 exponent range")
		verifAssert(verifF64UnpackIs(f, sign != 0, mant, exp-52), "Funpack64: f = ±mant·2^(exp-52) exactly")
	}
	verifReach("end")
}

// stand-ins for mullu / divlu in the R harnesses (check config overrides):
// any result within the range the exactness lemmas allow
func verifStubC05Mullu(u, v uint64) (lo, hi uint64) {
	lo, hi = verifNondetUint64("prod.lo"), verifNondetUint64("prod.hi")
	// u, v in [2^52, 2^53)  =>  u*v in [2^104, 2^106)
	verifAssume(hi >= 1<<40 && hi < 1<<42)
	return
}

func verifStubC05Divlu(u1, u0, v uint64) (q, r uint64) {
	q, r = verifNondetUint64("quot"), verifNondetUint64("rem")
	// (u1:u0) = fm·2^54 with fm, v in [2^52, 2^53)  =>  q in (2^53, 2^55), r < v
	verifAssume(q > 1<<53 && q < 1<<55 && r < v)
	return
}

// operand classes for the rounding lemmas: quick decides normal x normal,
// thorough also every combination with subnormal operands
func verifC05Classes(a, b uint64) {
	sub := func(x uint64) bool { return (x>>52)&0x7ff == 0 }
	k := 0
	if verifThorough() {
		k = verifChoose("class", 4)
	}
	verifAssume(sub(a) == (k&1 != 0))
	verifAssume(sub(b) == (k&2 != 0))
}

func verifC05Special64(x uint64) bool {
	e, m := (x>>52)&0x7ff, x&(1<<52-1)
	return e == 0x7ff || (e == 0 && m == 0)
}

func VerifC05_Mul64_Special() {
	a, b := verifNondetUint64("a"), verifNondetUint64("b")
	verifAssume(verifC05Special64(a) || verifC05Special64(b))
	verifAssert(verifF64MulIs(Fmul64(a, b), a, b), "Fmul64 with a NaN, Inf or zero operand follows IEEE-754")
	verifReach("end")
}

func VerifC05_Div64_Special() {
	a, b := verifNondetUint64("a"), verifNondetUint64("b")
	verifAssume(verifC05Special64(a) || verifC05Special64(b))
	verifAssert(verifF64DivIs(Fdiv64(a, b), a, b), "Fdiv64 with a NaN, Inf or zero operand follows IEEE-754")
	verifReach("end")
}

// R for multiplication: mullu is the stand-in above
func VerifC05_Mul64_Rounding() {
	a, b := verifNondetUint64("a"), verifNondetUint64("b")
	verifAssume(!verifC05Special64(a) && !verifC05Special64(b))
	verifC05Classes(a, b)
	as, _, ae, _, _ := Funpack64(a)
	bs, _, be, _, _ := Funpack64(b)
	if !verifThorough() {
		// quick: results in the normal range (no overflow / gradual underflow paths)
		verifAssume(ae+be >= -1000 && ae+be <= 1000)
	}
	r := Fmul64(a, b)
	// the stand-in was called exactly once: read its result back (natively
	// there is no stand-in: the real mullu produced the product)
	lo, hi := verifC05LastLo, verifC05LastHi
	if !verifC05StubCalled {
		_, am, _, _, _ := Funpack64(a)
		_, bm, _, _, _ := Funpack64(b)
		lo, hi = mullu(am, bm)
	}
	verifAssert(verifF64RoundIs(r, (as^bs) != 0, hi, lo, ae+be-104), "Fmul64 returns the correctly rounded value of product·2^(ea+eb-104)")
	verifReach("end")
}

var verifC05LastLo, verifC05LastHi, verifC05LastQ, verifC05LastR uint64
var verifC05StubCalled bool

func verifStubC05MulluRec(u, v uint64) (lo, hi uint64) {
	lo, hi = verifStubC05Mullu(u, v)
	verifC05LastLo, verifC05LastHi, verifC05StubCalled = lo, hi, true
	return
}

func verifStubC05DivluRec(u1, u0, v uint64) (q, r uint64) {
	q, r = verifStubC05Divlu(u1, u0, v)
	verifC05LastQ, verifC05LastR, verifC05StubCalled = q, r, true
	return
}

// R for division
func VerifC05_Div64_Rounding() {
	a, b := verifNondetUint64("a"), verifNondetUint64("b")
	verifAssume(!verifC05Special64(a) && !verifC05Special64(b))
	verifC05Classes(a, b)
	as, _, ae, _, _ := Funpack64(a)
	bs, _, be, _, _ := Funpack64(b)
	if !verifThorough() {
		verifAssume(ae-be >= -1000 && ae-be <= 1000)
	}
	r := Fdiv64(a, b)
	q, rem := verifC05LastQ, verifC05LastR
	if !verifC05StubCalled {
		_, am, _, _, _ := Funpack64(a)
		_, bm, _, _, _ := Funpack64(b)
		q, rem = divlu(am>>10, am<<54, bm)
	}
	sticky := uint64(0)
	if rem != 0 {
		sticky = 1
	}
	// exact quotient = (q + rem/v)·2^(ea-eb-54); q has a guard bit, so rounding (2q+sticky)·2^(ea-eb-55) is the same
	verifAssert(verifF64RoundIs(r, (as^bs) != 0, q>>63, q<<1|sticky, ae-be-55), "Fdiv64 returns the correctly rounded value of quotient·2^(ea-eb-54)")
	verifReach("end")
}

// M: mullu and divlu are exact (integer rendering; operands by 32-bit halves,
// see the engine notes: single 64-bit unknowns do not decide).
func verifC05U64(name string) uint64 {
	return uint64(verifNondetUint32(name+".hi"))<<32 + uint64(verifNondetUint32(name+".lo"))
}

func VerifC05_Mullu_Exact() {
	u, v := verifC05U64("u"), verifC05U64("v")
	lo, hi := mullu(u, v)
	want := new(big.Int).Mul(new(big.Int).SetUint64(u), new(big.Int).SetUint64(v))
	got := new(big.Int).Lsh(new(big.Int).SetUint64(hi), 64)
	got.Add(got, new(big.Int).SetUint64(lo))
	verifAssert(got.Cmp(want) == 0, "mullu(u, v) is the exact 128-bit product")
	verifReach("end")
}

// range used by the rounding lemma
func VerifC05_Mullu_Range_Exact() {
	u, v := verifC05U64("u"), verifC05U64("v")
	verifAssume(u >= 1<<52)
	verifAssume(u < 1<<53)
	verifAssume(v >= 1<<52)
	verifAssume(v < 1<<53)
	lo, hi := mullu(u, v)
	// exactness is the lemma above; here it is used, not re-proved
	got := new(big.Int).Lsh(new(big.Int).SetUint64(hi), 64)
	got.Add(got, new(big.Int).SetUint64(lo))
	verifAssume(got.Cmp(new(big.Int).Mul(new(big.Int).SetUint64(u), new(big.Int).SetUint64(v))) == 0)
	verifAssert(hi >= 1<<40, "53-bit operands give a product >= 2^104")
	verifAssert(hi < 1<<42, "53-bit operands give a product < 2^106")
	verifReach("end")
}

// divlu's exactness (Knuth division over 32-bit digits) is NOT decided: the
// integer-rendering query is unknown at 300 s in z3 and cvc5. The division
// claim therefore rests on it as a stated assumption.

// binary32 multiplication and division run through binary64 (exact widening,
// Fmul64 / Fdiv64, F64to32): their special-value table is decided directly.
func VerifC05_MulDiv32_Special() {
	a, b := verifNondetUint32("a"), verifNondetUint32("b")
	sp := func(x uint32) bool { e, m := (x>>23)&0xff, x&(1<<23-1); return e == 0xff || (e == 0 && m == 0) }
	verifAssume(sp(a) || sp(b))
	verifAssert(verifF32MulIs(Fmul32(a, b), a, b), "Fmul32 with a NaN, Inf or zero operand follows IEEE-754")
	verifAssert(verifF32DivIs(Fdiv32(a, b), a, b), "Fdiv32 with a NaN, Inf or zero operand follows IEEE-754")
	verifReach("end")
}
