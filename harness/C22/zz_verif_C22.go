package cache

// Harness for C22 (cache and prefix stores behave like the overlay model).
// The real cache.Store (with its memIterator / cacheMergeIterator) over a
// sorted in-memory parent. Keys are SYMBOLIC single bytes, so equal, adjacent,
// 0x00 and 0xFF keys and every relative order are covered by the solver;
// values are symbolic bytes; the kind of each operation is a structural
// choice. After the operations every point read and a full / ranged,
// ascending / descending iteration are compared with a reference overlay.

import (
	"bytes"

	dbm "github.com/gnolang/gno/tm2/pkg/db"
	"github.com/gnolang/gno/tm2/pkg/store/types"
)

// ---- parent: a slice kept sorted by key

type verifC22Parent struct {
	keys, vals [][]byte
}

func (p *verifC22Parent) find(k []byte) int {
	for i := range p.keys {
		if bytes.Equal(p.keys[i], k) {
			return i
		}
	}
	return -1
}
func (p *verifC22Parent) Get(_ *types.GasContext, k []byte) []byte {
	if i := p.find(k); i >= 0 {
		return p.vals[i]
	}
	return nil
}
func (p *verifC22Parent) Has(g *types.GasContext, k []byte) bool { return p.Get(g, k) != nil }
func (p *verifC22Parent) Set(_ *types.GasContext, k, v []byte) {
	if i := p.find(k); i >= 0 {
		p.vals[i] = v
		return
	}
	pos := len(p.keys)
	for i := range p.keys {
		if bytes.Compare(k, p.keys[i]) < 0 {
			pos = i
			break
		}
	}
	p.keys = append(p.keys[:pos], append([][]byte{k}, p.keys[pos:]...)...)
	p.vals = append(p.vals[:pos], append([][]byte{v}, p.vals[pos:]...)...)
}
func (p *verifC22Parent) Delete(_ *types.GasContext, k []byte) {
	if i := p.find(k); i >= 0 {
		p.keys = append(p.keys[:i:i], p.keys[i+1:]...)
		p.vals = append(p.vals[:i:i], p.vals[i+1:]...)
	}
}
func (p *verifC22Parent) CacheWrap() types.Store { return New(p) }
func (p *verifC22Parent) Write()                 {}

type verifC22Iter struct {
	start, end []byte
	keys, vals [][]byte
}

func (it *verifC22Iter) Domain() ([]byte, []byte) { return it.start, it.end }
func (it *verifC22Iter) Valid() bool              { return len(it.keys) > 0 }
func (it *verifC22Iter) Next()                    { it.keys, it.vals = it.keys[1:], it.vals[1:] }
func (it *verifC22Iter) Key() []byte              { return it.keys[0] }
func (it *verifC22Iter) Value() []byte            { return it.vals[0] }
func (it *verifC22Iter) Error() error             { return nil }
func (it *verifC22Iter) Close() error             { return nil }

func (p *verifC22Parent) iter(start, end []byte, asc bool) types.Iterator {
	it := &verifC22Iter{start: start, end: end}
	for i := range p.keys {
		if dbm.IsKeyInDomain(p.keys[i], start, end) {
			if asc {
				it.keys, it.vals = append(it.keys, p.keys[i]), append(it.vals, p.vals[i])
			} else {
				it.keys, it.vals = append([][]byte{p.keys[i]}, it.keys...), append([][]byte{p.vals[i]}, it.vals...)
			}
		}
	}
	return it
}
func (p *verifC22Parent) Iterator(_ *types.GasContext, s, e []byte) types.Iterator {
	return p.iter(s, e, true)
}
func (p *verifC22Parent) ReverseIterator(_ *types.GasContext, s, e []byte) types.Iterator {
	return p.iter(s, e, false)
}

// ---- reference overlay: the list of writes, newest last

type verifC22Model struct {
	keys, vals [][]byte // vals[i] == nil: deleted
}

func (m *verifC22Model) put(k, v []byte) { m.keys, m.vals = append(m.keys, k), append(m.vals, v) }
func (m *verifC22Model) get(k []byte) []byte {
	for i := len(m.keys) - 1; i >= 0; i-- {
		if bytes.Equal(m.keys[i], k) {
			return m.vals[i]
		}
	}
	return nil
}

// live returns the live (key, value) pairs in ascending key order.
func (m *verifC22Model) live(start, end []byte) (ks, vs [][]byte) {
	for i := range m.keys {
		k := m.keys[i]
		if m.get(k) == nil || !dbm.IsKeyInDomain(k, start, end) {
			continue
		}
		dup := false
		for _, o := range ks {
			if bytes.Equal(o, k) {
				dup = true
			}
		}
		if dup {
			continue
		}
		pos := len(ks)
		for j := range ks {
			if bytes.Compare(k, ks[j]) < 0 {
				pos = j
				break
			}
		}
		ks = append(ks[:pos], append([][]byte{k}, ks[pos:]...)...)
		vs = append(vs[:pos], append([][]byte{m.get(k)}, vs[pos:]...)...)
	}
	return
}

func verifC22Compare(st types.Store, m *verifC22Model, start, end []byte, asc bool, what string) {
	ks, vs := m.live(start, end)
	var it types.Iterator
	if asc {
		it = st.Iterator(nil, start, end)
	} else {
		it = st.ReverseIterator(nil, start, end)
	}
	n := 0
	for ; it.Valid(); it.Next() {
		if n >= len(ks) {
			verifAssert(false, "iteration yields no key the overlay model does not hold")
			return
		}
		idx := n
		if !asc {
			idx = len(ks) - 1 - n
		}
		verifAssert(bytes.Equal(it.Key(), ks[idx]) && bytes.Equal(it.Value(), vs[idx]), "iteration yields the overlay model's live entries in key order")
		n++
		if n > 8 {
			verifAssert(false, "iteration terminates")
			return
		}
	}
	it.Close()
	verifAssert(n == len(ks), "iteration yields every live entry of the overlay model")
}

func verifC22Key(name string) []byte { return verifBytes(name, 1) }

func VerifC22_Overlay() {
	// quick: 3 operations from {Set, Delete, iterate} over a parent with
	// 0..1 entries; thorough: 3 operations from all five kinds, parent 0..1
	nops, maxParent, kinds := 3, 2, []int{0, 1, 3}
	if verifThorough() {
		kinds = []int{0, 1, 2, 3, 4}
	}
	parent := &verifC22Parent{}
	model := &verifC22Model{}
	np := verifChoose("parent", maxParent)
	for i := 0; i < np; i++ {
		k, v := verifC22Key("pkey"), verifBytes("pval", 1)
		if parent.find(k) >= 0 {
			return // distinct parent keys
		}
		parent.Set(nil, k, v)
		model.put(k, v)
	}
	st := New(parent)
	var keys [][]byte
	for _, k := range parent.keys {
		keys = append(keys, k)
	}
	for s := 0; s < nops; s++ {
		k := verifC22Key("key")
		keys = append(keys, k)
		switch kinds[verifChoose("op", len(kinds))] {
		case 0:
			v := verifBytes("val", 1)
			st.Set(nil, k, v)
			model.put(k, v)
		case 1:
			st.Delete(nil, k)
			model.put(k, nil)
		case 2:
			verifAssert(bytes.Equal(st.Get(nil, k), model.get(k)) && (st.Get(nil, k) == nil) == (model.get(k) == nil), "Get returns the overlay model's value")
			verifAssert(st.Has(nil, k) == (model.get(k) != nil), "Has agrees with Get")
		case 3: // an iteration in the middle of the history (it builds the sorted cache)
			verifC22Compare(st, model, nil, nil, true, "mid")
		case 4: // flush to the parent and continue on the same store
			st.Write()
		}
	}
	// point reads of every key seen
	for _, k := range keys {
		got := st.Get(nil, k)
		verifAssert((got == nil) == (model.get(k) == nil) && bytes.Equal(got, model.get(k)), "after the history, Get returns the overlay model's value")
	}
	// iterations
	var start, end []byte
	nr := 2 // full range, or start+end (half-open one-sided ranges did not fit the thorough path budget together with all five operation kinds)
	r := verifChoose("range", nr)
	if r == 1 {
		r = 3
	}
	switch r {
	case 1:
		start = verifC22Key("start")
	case 2:
		end = verifC22Key("end")
	case 3:
		start, end = verifC22Key("start"), verifC22Key("end")
	}
	verifC22Compare(st, model, start, end, verifChoose("asc", 2) == 0, "final")
	// Write applies exactly the net state to the parent
	st.Write()
	for _, k := range keys {
		got := parent.Get(nil, k)
		verifAssert((got == nil) == (model.get(k) == nil) && bytes.Equal(got, model.get(k)), "Write applies exactly the overlay to the parent")
	}
	for i := 1; i < len(parent.keys); i++ {
		verifAssert(bytes.Compare(parent.keys[i-1], parent.keys[i]) < 0, "parent stays sorted (harness sanity)")
	}
	verifReach("end")
}
