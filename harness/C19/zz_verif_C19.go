package overflow

// Harness for C19 (overflow-checked integer arithmetic is exact).
// Oracle: the mathematical result computed in math/big (SMT Int in the
// symbolic run, the real library in the native replay).

import "math/big"

func verifC19Big[N Number](x N) *big.Int {
	var z N
	if z-1 > 0 { // unsigned
		return new(big.Int).SetUint64(uint64(x))
	}
	return big.NewInt(int64(x))
}

// verifC19Range returns the least and greatest value of N.
func verifC19Range[N Number]() (*big.Int, *big.Int) {
	var z N
	bits := uint(0)
	for x := N(1); x != 0; x <<= 1 {
		bits++
	}
	if z-1 > 0 {
		return big.NewInt(0), verifC19Big(^z)
	}
	min := N(1) << (bits - 1)
	return verifC19Big(min), verifC19Big(^min)
}

func verifC19Fits[N Number](v *big.Int) bool {
	lo, hi := verifC19Range[N]()
	if v.Cmp(lo) < 0 {
		return false
	}
	return v.Cmp(hi) <= 0
}

func verifC19Add[N Number](a, b N) {
	c, ok := Add(a, b)
	exact := new(big.Int).Add(verifC19Big(a), verifC19Big(b))
	fits := verifC19Fits[N](exact)
	verifAssert(ok == fits, "Add: ok <=> sum representable")
	if fits {
		verifAssert(verifC19Big(c).Cmp(exact) == 0, "Add: value exact")
	}
	var r N
	p := verifPanics(func() { r = Addp(a, b) })
	verifAssert(p == !fits, "Addp: panics <=> not representable")
	if !p {
		verifAssert(verifC19Big(r).Cmp(exact) == 0, "Addp: value exact")
	}
	verifReach("end")
}

func verifC19Sub[N Number](a, b N) {
	c, ok := Sub(a, b)
	exact := new(big.Int).Sub(verifC19Big(a), verifC19Big(b))
	fits := verifC19Fits[N](exact)
	verifAssert(ok == fits, "Sub: ok <=> difference representable")
	if fits {
		verifAssert(verifC19Big(c).Cmp(exact) == 0, "Sub: value exact")
	}
	var r N
	p := verifPanics(func() { r = Subp(a, b) })
	verifAssert(p == !fits, "Subp: panics <=> not representable")
	if !p {
		verifAssert(verifC19Big(r).Cmp(exact) == 0, "Subp: value exact")
	}
	verifReach("end")
}

func verifC19Mul[N Number](a, b N) {
	c, ok := Mul(a, b)
	exact := new(big.Int).Mul(verifC19Big(a), verifC19Big(b))
	fits := verifC19Fits[N](exact)
	verifAssert(ok == fits, "Mul: ok <=> product representable")
	if fits {
		verifAssert(verifC19Big(c).Cmp(exact) == 0, "Mul: value exact")
	}
	var r N
	p := verifPanics(func() { r = Mulp(a, b) })
	verifAssert(p == !fits, "Mulp: panics <=> not representable")
	if !p {
		verifAssert(verifC19Big(r).Cmp(exact) == 0, "Mulp: value exact")
	}
	verifReach("end")
}

func verifC19Div[N Number](a, b N) {
	c, ok := Div(a, b)
	fits := false
	exact := new(big.Int)
	if b != 0 {
		exact.Quo(verifC19Big(a), verifC19Big(b)) // truncated, as Go's /
		fits = verifC19Fits[N](exact)
	}
	verifAssert(ok == fits, "Div: ok <=> divisor non-zero and quotient representable")
	if fits {
		verifAssert(verifC19Big(c).Cmp(exact) == 0, "Div: value exact")
	}
	var r N
	p := verifPanics(func() { r = Divp(a, b) })
	verifAssert(p == !fits, "Divp: panics <=> not representable")
	if !p {
		verifAssert(verifC19Big(r).Cmp(exact) == 0, "Divp: value exact")
	}
	verifReach("end")
}

func VerifC19_Add_int() { verifC19Add(verifNondetInt("a"), verifNondetInt("b")) }
func VerifC19_Add_int8() { verifC19Add(verifNondetInt8("a"), verifNondetInt8("b")) }
func VerifC19_Add_int16() { verifC19Add(verifNondetInt16("a"), verifNondetInt16("b")) }
func VerifC19_Add_int32() { verifC19Add(verifNondetInt32("a"), verifNondetInt32("b")) }
func VerifC19_Add_int64() { verifC19Add(verifNondetInt64("a"), verifNondetInt64("b")) }
func VerifC19_Add_uint() { verifC19Add(verifNondetUint("a"), verifNondetUint("b")) }
func VerifC19_Add_uint8() { verifC19Add(verifNondetUint8("a"), verifNondetUint8("b")) }
func VerifC19_Add_uint16() { verifC19Add(verifNondetUint16("a"), verifNondetUint16("b")) }
func VerifC19_Add_uint32() { verifC19Add(verifNondetUint32("a"), verifNondetUint32("b")) }
func VerifC19_Add_uint64() { verifC19Add(verifNondetUint64("a"), verifNondetUint64("b")) }
func VerifC19_Sub_int() { verifC19Sub(verifNondetInt("a"), verifNondetInt("b")) }
func VerifC19_Sub_int8() { verifC19Sub(verifNondetInt8("a"), verifNondetInt8("b")) }
func VerifC19_Sub_int16() { verifC19Sub(verifNondetInt16("a"), verifNondetInt16("b")) }
func VerifC19_Sub_int32() { verifC19Sub(verifNondetInt32("a"), verifNondetInt32("b")) }
func VerifC19_Sub_int64() { verifC19Sub(verifNondetInt64("a"), verifNondetInt64("b")) }
func VerifC19_Sub_uint() { verifC19Sub(verifNondetUint("a"), verifNondetUint("b")) }
func VerifC19_Sub_uint8() { verifC19Sub(verifNondetUint8("a"), verifNondetUint8("b")) }
func VerifC19_Sub_uint16() { verifC19Sub(verifNondetUint16("a"), verifNondetUint16("b")) }
func VerifC19_Sub_uint32() { verifC19Sub(verifNondetUint32("a"), verifNondetUint32("b")) }
func VerifC19_Sub_uint64() { verifC19Sub(verifNondetUint64("a"), verifNondetUint64("b")) }
func VerifC19_Mul_int() { verifC19Mul(verifNondetInt("a"), verifNondetInt("b")) }
func VerifC19_Mul_int8() { verifC19Mul(verifNondetInt8("a"), verifNondetInt8("b")) }
func VerifC19_Mul_int16() { verifC19Mul(verifNondetInt16("a"), verifNondetInt16("b")) }
func VerifC19_Mul_int32() { verifC19Mul(verifNondetInt32("a"), verifNondetInt32("b")) }
func VerifC19_Mul_int64() { verifC19Mul(verifNondetInt64("a"), verifNondetInt64("b")) }
func VerifC19_Mul_uint() { verifC19Mul(verifNondetUint("a"), verifNondetUint("b")) }
func VerifC19_Mul_uint8() { verifC19Mul(verifNondetUint8("a"), verifNondetUint8("b")) }
func VerifC19_Mul_uint16() { verifC19Mul(verifNondetUint16("a"), verifNondetUint16("b")) }
func VerifC19_Mul_uint32() { verifC19Mul(verifNondetUint32("a"), verifNondetUint32("b")) }
func VerifC19_Mul_uint64() { verifC19Mul(verifNondetUint64("a"), verifNondetUint64("b")) }
func VerifC19_Div_int() { verifC19Div(verifNondetInt("a"), verifNondetInt("b")) }
func VerifC19_Div_int8() { verifC19Div(verifNondetInt8("a"), verifNondetInt8("b")) }
func VerifC19_Div_int16() { verifC19Div(verifNondetInt16("a"), verifNondetInt16("b")) }
func VerifC19_Div_int32() { verifC19Div(verifNondetInt32("a"), verifNondetInt32("b")) }
func VerifC19_Div_int64() { verifC19Div(verifNondetInt64("a"), verifNondetInt64("b")) }
func VerifC19_Div_uint() { verifC19Div(verifNondetUint("a"), verifNondetUint("b")) }
func VerifC19_Div_uint8() { verifC19Div(verifNondetUint8("a"), verifNondetUint8("b")) }
func VerifC19_Div_uint16() { verifC19Div(verifNondetUint16("a"), verifNondetUint16("b")) }
func VerifC19_Div_uint32() { verifC19Div(verifNondetUint32("a"), verifNondetUint32("b")) }
func VerifC19_Div_uint64() { verifC19Div(verifNondetUint64("a"), verifNondetUint64("b")) }
