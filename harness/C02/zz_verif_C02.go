package sdk

// Harness for C02 (transactions are atomic) and the runTx clauses of C10
// (block gas accounting): BaseApp.runTx in deliver mode over the REAL
// cachemulti / cache.Store stack, a harness parent store, a harness ante
// handler (pays the fee, bumps the sequence, installs the per-tx gas meter)
// and harness message handlers that write marker keys and burn symbolic gas.
// Symbolic: gas wanted, gas burnt by the ante handler and by each message,
// block gas limit and block gas already consumed. Structural: number of
// messages, which message fails or panics, whether the ante handler aborts.

import (
	"time"

	"github.com/gnolang/gno/tm2/pkg/amino"
	abci "github.com/gnolang/gno/tm2/pkg/bft/abci/types"
	"github.com/gnolang/gno/tm2/pkg/sdk/testutils"
	"github.com/gnolang/gno/tm2/pkg/std"
	"github.com/gnolang/gno/tm2/pkg/store/cache"
	"github.com/gnolang/gno/tm2/pkg/store/cachemulti"
	store "github.com/gnolang/gno/tm2/pkg/store/types"
)

type verifC02Header struct{}

func (verifC02Header) GetChainID() string { return "c" }
func (verifC02Header) GetHeight() int64   { return 1 }
func (verifC02Header) GetTime() time.Time { return time.Time{} }
func (verifC02Header) AssertABCIHeader()  {}


// ---- parent store (the block's deliver state): a plain map

type verifC02KV struct{ m map[string][]byte }

func (s *verifC02KV) Get(_ *store.GasContext, k []byte) []byte { return s.m[string(k)] }
func (s *verifC02KV) Has(_ *store.GasContext, k []byte) bool   { _, ok := s.m[string(k)]; return ok }
func (s *verifC02KV) Set(_ *store.GasContext, k, v []byte)     { s.m[string(k)] = v }
func (s *verifC02KV) Delete(_ *store.GasContext, k []byte)     { delete(s.m, string(k)) }
func (s *verifC02KV) Iterator(*store.GasContext, []byte, []byte) store.Iterator {
	panic("not used")
}
func (s *verifC02KV) ReverseIterator(*store.GasContext, []byte, []byte) store.Iterator {
	panic("not used")
}
func (s *verifC02KV) CacheWrap() store.Store { return cache.New(s) }
func (s *verifC02KV) Write()                 {}

type verifC02MS struct {
	key store.StoreKey
	kv  *verifC02KV
}

func (ms verifC02MS) GetStore(k store.StoreKey) store.Store { return ms.kv }
func (ms verifC02MS) MultiCacheWrap() store.MultiStore {
	return cachemulti.New(map[store.StoreKey]store.Store{ms.key: ms.kv}, nil)
}
func (ms verifC02MS) MultiWrite() {}

// ---- symbolic-run stand-ins for the amino codec (check config "func_stubs")

var verifC02PendingTx *Tx

func verifStubC02MustMarshal(o any) []byte {
	tx := o.(Tx)
	verifC02PendingTx = &tx
	return []byte{1}
}

func verifStubC02Unmarshal(bz []byte, ptr any) error {
	*(ptr.(*Tx)) = *verifC02PendingTx
	return nil
}

// ---- the scenario

type verifC02Env struct {
	key        store.StoreKey
	gasWanted  int64
	anteGas    int64
	anteAbort  bool
	nmsgs      int
	msgGas     [3]int64
	msgOutcome [3]int // 0 ok, 1 error result, 2 panic
	ran        [3]bool
}

type verifC02Handler struct{ env *verifC02Env }

func (h verifC02Handler) Process(ctx Context, msg Msg) Result {
	i := int(msg.(testutils.MsgCounter).Counter)
	h.env.ran[i] = true
	ctx.Store(h.env.key).Set(nil, []byte{'m', byte(i)}, []byte{1})
	// a message also rewrites a key the ante handler wrote (the payer's
	// account on the real chain) and deletes another one
	ctx.Store(h.env.key).Set(nil, []byte("fee"), []byte{byte(10 + i)})
	ctx.Store(h.env.key).Delete(nil, []byte("nonce"))
	ctx.GasMeter().ConsumeGas(h.env.msgGas[i], "msg")
	switch h.env.msgOutcome[i] {
	case 1:
		return ABCIResultFromError(std.ErrInternal("msg failed"))
	case 2:
		panic("msg panicked")
	}
	return Result{}
}
func (h verifC02Handler) Query(Context, abci.RequestQuery) abci.ResponseQuery {
	return abci.ResponseQuery{}
}

func verifC02Ante(env *verifC02Env) AnteHandler {
	return func(ctx Context, tx Tx, simulate bool) (newCtx Context, res Result, abort bool) {
		// as auth.NewAnteHandler does: per-tx meter with the fee's gas, then charge;
		// running out of gas inside the ante handler is an abort
		newCtx = ctx.WithGasMeter(store.NewGasMeter(env.gasWanted))
		defer func() {
			if r := recover(); r != nil {
				if _, oog := r.(store.OutOfGasError); !oog {
					panic(r)
				}
				res = ABCIResultFromError(std.ErrOutOfGas("ante"))
				res.GasWanted = env.gasWanted
				res.GasUsed = newCtx.GasMeter().GasConsumed()
				abort = true
			}
		}()
		if env.anteAbort {
			newCtx.Store(env.key).Set(nil, []byte("junk"), []byte{1}) // must never become visible
			res := ABCIResultFromError(std.ErrUnauthorized("bad signature"))
			res.GasWanted = env.gasWanted
			return newCtx, res, true
		}
		newCtx.Store(env.key).Set(nil, []byte("fee"), []byte{1})
		newCtx.Store(env.key).Set(nil, []byte("seq"), []byte{1})
		newCtx.Store(env.key).Set(nil, []byte("nonce"), []byte{1})
		newCtx.GasMeter().ConsumeGas(env.anteGas, "ante")
		return newCtx, Result{GasWanted: env.gasWanted}, false
	}
}

func verifC02Gas(name string) int64 {
	g := verifNondetInt64(name)
	verifAssume(g >= 0)
	verifAssume(g <= 1<<60)
	return g
}

func VerifC02_RunTxDeliver() {
	maxMsgs := 2
	if verifThorough() {
		maxMsgs = 3
	}
	env := &verifC02Env{key: store.NewStoreKey("main")}
	env.gasWanted = verifC02Gas("gasWanted")
	env.anteGas = verifC02Gas("anteGas")
	env.anteAbort = verifChoose("anteAbort", 2) == 1
	env.nmsgs = 1 + verifChoose("nmsgs", maxMsgs)
	bad := verifChoose("failing", env.nmsgs+1) // which message fails (nmsgs = none)
	for i := 0; i < env.nmsgs; i++ {
		env.msgGas[i] = verifC02Gas("msgGas")
		if i == bad {
			env.msgOutcome[i] = 1 + verifChoose("how", 2)
		}
	}
	blockLimit := verifC02Gas("blockGasLimit")
	blockUsed := verifC02Gas("blockGasUsed")
	verifAssume(blockUsed <= blockLimit)
	// what the ante handler of gno.land guarantees: the tx's gas fits a block
	verifAssume(env.gasWanted <= blockLimit)

	kv := &verifC02KV{m: map[string][]byte{"old": {9}}}
	ms := verifC02MS{key: env.key, kv: kv}
	// (AddRoute validates the path with a regexp the engine does not execute)
	app := &BaseApp{router: &router{routes: map[string]Handler{testutils.RouteMsgCounter: verifC02Handler{env}}}}
	app.anteHandler = verifC02Ante(env)
	blockMeter := store.NewGasMeter(blockLimit)
	if blockUsed > 0 {
		blockMeter.ConsumeGas(blockUsed, "earlier txs")
	}
	ctx := NewContext(RunTxModeDeliver, ms, verifC02Header{}, nil).
		WithBlockGasMeter(blockMeter).
		WithConsensusParams(&abci.ConsensusParams{Block: &abci.BlockParams{MaxGas: blockLimit}})
	var msgs []Msg
	for i := 0; i < env.nmsgs; i++ {
		msgs = append(msgs, testutils.MsgCounter{Counter: int64(i)})
	}
	txBytes := amino.MustMarshal(std.Tx{Msgs: msgs})

	var res Result
	p := verifPanics(func() { res = app.runTx(ctx, txBytes) })
	verifAssert(!p, "runTx never panics (message panics and out-of-gas are turned into error results)")
	if p {
		return
	}
	ok := res.Error == nil
	has := func(k string) bool { _, in := kv.m[k]; return in }

	// ---- C02: all or nothing
	verifAssert(has("old") && !has("junk"), "pre-existing state is kept; writes of an aborted ante handler never become visible")
	if blockUsed >= blockLimit {
		verifAssert(!ok && !has("fee") && !env.ran[0], "a block never processes a transaction once the block gas limit is exhausted")
	} else if env.anteAbort || env.anteGas > env.gasWanted {
		verifAssert(!ok && !has("fee") && !has("seq") && !has("m\x00"), "a transaction rejected by the ante handler (bad signature, or out of gas there) changes nothing")
	} else {
		allMsgs := true
		anyMsg := false
		for i := 0; i < env.nmsgs; i++ {
			in := has(string([]byte{'m', byte(i)}))
			allMsgs = allMsgs && in
			anyMsg = anyMsg || in
		}
		if ok {
			verifAssert(has("fee") && has("seq") && allMsgs, "a successful transaction's changes are all visible")
			verifAssert(len(kv.m["fee"]) == 1 && kv.m["fee"][0] == byte(10+env.nmsgs-1) && !has("nonce"), "on success a key rewritten (or deleted) by the messages holds the last message's value")
		} else {
			if has("fee") {
				verifAssert(len(kv.m["fee"]) == 1 && kv.m["fee"][0] == 1 && has("nonce"), "on failure a key written by the ante handler and rewritten (or deleted) by a message keeps the ante handler's value")
			}
			verifAssert(!anyMsg, "a failing transaction leaves none of its message changes visible")
			verifAssert(has("fee") == has("seq"), "fee deduction and sequence increment stand or fall together")
		}
		// expected verdict from the scenario itself
		total := env.anteGas
		oog := false
		failed := false
		for i := 0; i < env.nmsgs && !failed; i++ {
			total += env.msgGas[i]
			if total > env.gasWanted {
				oog, failed = true, true
			} else if env.msgOutcome[i] != 0 {
				failed = true
			}
		}
		// the block gas limit: a tx whose gas does not fit the rest of the block fails
		used := total
		if used > env.gasWanted {
			used = env.gasWanted
		}
		if blockUsed+used > blockLimit {
			failed = true
		}
		verifAssert(ok == !failed, "a transaction succeeds exactly when the ante handler and every message succeed within the gas wanted and the block gas limit")
		if failed {
			verifAssert(has("fee") && has("seq"), "when a message fails, runs out of gas or panics, the fee is still paid and the sequence still advances")
		}
		_ = oog
	}
	cp, isCp := ms.MultiCacheWrap().(store.Checkpointable)
	verifAssert(isCp && !cp.HasCheckpoint(), "fresh cache wraps carry no checkpoint")

	// ---- C10: gas accounting
	verifAssert(res.GasUsed >= 0, "gas used is never negative")
	if !env.anteAbort && env.anteGas <= env.gasWanted && blockUsed < blockLimit {
		verifAssert(res.GasWanted == env.gasWanted, "gas wanted is the fee's gas")
		charged := blockMeter.GasConsumed() - blockUsed
		want := res.GasUsed
		if want > env.gasWanted {
			want = env.gasWanted
		}
		verifAssert(charged == want, "the gas of the transaction is charged to the block")
		// (asserted last: it is a known finding, and a failing assertion prunes the path)
		verifAssert(res.GasUsed <= res.GasWanted, "reported gas used is at most gas wanted")
	}
	verifReach("end")
}
