package types

// Harness for C37 (proposer selection is fair and validator-set updates are
// safe). Voting powers are symbolic; the shape of a set and of an update
// (which addresses, how many entries) is a structural choice.

import (
	"math/big"

	"github.com/gnolang/gno/tm2/pkg/crypto"
)

type verifC37Key struct{ id byte }

func verifC37Addr(id byte) (a crypto.Address) { a[0] = id + 1; return }

func (k verifC37Key) Address() crypto.Address { return verifC37Addr(k.id) }
func (k verifC37Key) Bytes() []byte            { return []byte{k.id} }
func (k verifC37Key) Equals(o crypto.PubKey) bool {
	ok, same := o.(verifC37Key)
	return same && ok.id == k.id
}
func (k verifC37Key) String() string                { return "verifkey" }
func (k verifC37Key) VerifyBytes(m, s []byte) bool { return false }

func verifC37ID(a crypto.Address) int { return int(a[0]) - 1 }

// (a) Fairness: the total power T is fixed by a structural choice, the split
// of T over the validators is symbolic. After any warm-up of 0..T steps, in
// the next T steps every validator proposes exactly `power` times.
func VerifC37_Fairness() {
	maxT := 3
	if verifThorough() {
		maxT = 5
	}
	n := 1 + verifChoose("n", 3)
	if n > maxT {
		return
	}
	T := n + verifChoose("T", maxT-n+1)
	powers := make([]int64, n)
	var valz []*Validator
	sum := int64(0)
	for i := 0; i < n; i++ {
		p := verifNondetInt64("power")
		verifAssume(p >= 1)
		verifAssume(p <= int64(T))
		powers[i] = p
		sum += p
		valz = append(valz, NewValidator(verifC37Key{byte(i)}, p))
	}
	verifAssume(sum == int64(T))
	vs := NewValidatorSet(valz)
	if warm := verifChoose("warmup", T+1); warm > 0 {
		vs.IncrementProposerPriority(warm)
	}
	counts := make([]int64, n)
	for s := 0; s < T; s++ {
		vs.IncrementProposerPriority(1)
		counts[verifC37ID(vs.GetProposer().Address)]++
	}
	for i := 0; i < n; i++ {
		verifAssert(counts[i] == powers[i], "in a window of total-power heights each validator proposes exactly voting-power times")
	}
	verifReach("end")
}

type verifC37Snap struct {
	addr  []int
	power []int64
	prio  []int64
	total int64
}

func verifC37Snapshot(vs *ValidatorSet) (s verifC37Snap) {
	for _, v := range vs.Validators {
		s.addr = append(s.addr, verifC37ID(v.Address))
		s.power = append(s.power, v.VotingPower)
		s.prio = append(s.prio, v.ProposerPriority)
	}
	s.total = vs.TotalVotingPower()
	return
}

func verifC37Invariants(vs *ValidatorSet, what string) { verifC37Inv(vs, true) }

func verifC37Inv(vs *ValidatorSet, window bool) {
	total := big.NewInt(0)
	for i, v := range vs.Validators {
		verifAssert(v.VotingPower > 0, "every validator has positive power")
		total.Add(total, big.NewInt(v.VotingPower))
		if i > 0 {
			verifAssert(verifC37ID(vs.Validators[i-1].Address) < verifC37ID(v.Address), "the set stays sorted by address and duplicate-free")
		}
	}
	verifAssert(len(vs.Validators) > 0, "the set is never empty")
	verifAssert(total.Cmp(big.NewInt(MaxTotalVotingPower)) <= 0 && total.Cmp(big.NewInt(vs.TotalVotingPower())) == 0, "total voting power is the sum of the powers and within the maximum")
	if !window {
		return
	}
	// priorities within 3 * total of each other
	limit := new(big.Int).Mul(total, big.NewInt(3))
	for _, v := range vs.Validators {
		for _, w := range vs.Validators {
			d := new(big.Int).Sub(big.NewInt(v.ProposerPriority), big.NewInt(w.ProposerPriority))
			verifAssert(d.Cmp(limit) <= 0, "proposer priorities stay within three times the total voting power of each other")
		}
	}
}

func verifC37Alphabet() int {
	if verifThorough() {
		return 4
	}
	return 3
}

// one change entry over the address alphabet with a symbolic power
func verifC37Change() *Validator {
	id := byte(verifChoose("addr", verifC37Alphabet()))
	p := verifNondetInt64("newpower")
	return &Validator{Address: verifC37Addr(id), PubKey: verifC37Key{id}, VotingPower: p}
}

// (b)+(c) Updates and increments from a constructed set.
func VerifC37_Updates() {
	// existing set: a non-empty subset of addresses 0..2, symbolic powers
	var valz []*Validator
	inSet := [4]bool{}
	power := [4]int64{}
	sum := int64(0)
	for id := 0; id < verifC37Alphabet()-1; id++ {
		// quick: the sets {0} and {0,1}; thorough: every non-empty subset of 3 addresses
		if (verifThorough() || id > 0) && verifChoose("member", 2) == 0 {
			continue
		}
		p := verifNondetInt64("power")
		verifAssume(p >= 1)
		verifAssume(p <= MaxTotalVotingPower)
		sum += p
		verifAssume(sum <= MaxTotalVotingPower)
		inSet[id], power[id] = true, p
		valz = append(valz, NewValidator(verifC37Key{byte(id)}, p))
	}
	if len(valz) == 0 {
		return
	}
	vs := NewValidatorSet(valz)
	verifC37Invariants(vs, "constructed")
	if verifThorough() && verifChoose("pre", 2) == 1 {
		vs.IncrementProposerPriority(1 + verifChoose("times", 2))
		verifC37Invariants(vs, "after increments")
	}

	nch := 1 + verifChoose("changes", 2)
	var changes []*Validator
	for k := 0; k < nch; k++ {
		ch := verifC37Change()
		if !verifThorough() && k == 0 && nch == 2 && verifC37ID(ch.Address) != 0 {
			return // quick: two-entry change sets start with address 0 (duplicates (0,0) included)
		}
		changes = append(changes, ch)
	}
	before := verifC37Snapshot(vs)
	var err error
	p := verifPanics(func() { err = vs.UpdateWithChangeSet(changes) })
	verifAssert(!p, "UpdateWithChangeSet never panics")
	if p {
		return
	}

	// what the statement requires to be rejected
	bad := false
	seen := [4]bool{}
	newIn, newPower := inSet, power
	for _, c := range changes {
		id := verifC37ID(c.Address)
		if seen[id] || c.VotingPower < 0 || c.VotingPower > MaxTotalVotingPower {
			bad = true
		}
		seen[id] = true
		if c.VotingPower == 0 {
			if !inSet[id] {
				bad = true // unknown removal
			}
			newIn[id] = false
		} else {
			newIn[id], newPower[id] = true, c.VotingPower
		}
	}
	final := big.NewInt(0)
	members := 0
	for id := 0; id < 4; id++ {
		if newIn[id] {
			members++
			final.Add(final, big.NewInt(newPower[id]))
		}
	}
	if !bad && (members == 0 || final.Cmp(big.NewInt(MaxTotalVotingPower)) > 0) {
		bad = true
	}
	if bad {
		verifAssert(err != nil, "updates with duplicates, negative or excessive powers, unknown removals or an empty result are rejected")
	}
	if err != nil {
		after := verifC37Snapshot(vs)
		same := len(after.addr) == len(before.addr) && after.total == before.total
		for i := 0; same && i < len(before.addr); i++ {
			same = after.addr[i] == before.addr[i] && after.power[i] == before.power[i] && after.prio[i] == before.prio[i]
		}
		verifAssert(same, "a rejected update leaves the set unchanged")
	} else {
		k := 0
		for id := 0; id < 4; id++ {
			if !newIn[id] {
				continue
			}
			verifAssert(k < len(vs.Validators) && verifC37ID(vs.Validators[k].Address) == id && vs.Validators[k].VotingPower == newPower[id], "an accepted update yields exactly the merged set")
			k++
		}
		verifAssert(k == len(vs.Validators), "an accepted update yields exactly the merged set (no extra members)")
		// Did the update re-scale the priorities? It does when the spread of the
		// merged priorities (kept validators keep theirs, new ones start at
		// -1.125 * total-with-additions) exceeds twice the new total. The
		// re-scaling divides by a symbolic ratio; the priority-window query is
		// then nonlinear and neither solver decides it in 60 s, so on those
		// paths the window clause is NOT asserted (stated as outside the claim).
		tUpd := big.NewInt(0) // total with additions and changes, before removals
		for id := 0; id < 4; id++ {
			if newIn[id] || (inSet[id] && !newIn[id]) {
				pw := newPower[id]
				if !newIn[id] {
					pw = power[id]
				}
				tUpd.Add(tUpd, big.NewInt(pw))
			}
		}
		fresh := new(big.Int).Add(tUpd, new(big.Int).Rsh(tUpd, 3))
		fresh.Neg(fresh)
		var lo, hi *big.Int
		for id := 0; id < 4; id++ {
			if !newIn[id] {
				continue
			}
			pr := fresh
			if inSet[id] {
				for i, a := range before.addr {
					if a == id {
						pr = big.NewInt(before.prio[i])
					}
				}
			}
			if lo == nil || pr.Cmp(lo) < 0 {
				lo = pr
			}
			if hi == nil || pr.Cmp(hi) > 0 {
				hi = pr
			}
		}
		rescaled := new(big.Int).Sub(hi, lo).Cmp(new(big.Int).Mul(final, big.NewInt(2))) > 0
		if rescaled {
			verifReach("rescaled: priority window not asserted")
		}
		verifC37Inv(vs, !rescaled)
		if verifThorough() {
			vs.IncrementProposerPriority(1)
			verifC37Invariants(vs, "after update and increment")
		}
	}
	verifReach("end")
}
