package bank

// Harness for C14 (coin supply is conserved): the real BankKeeper (MintCoins,
// BurnCoins, SendCoins and everything below them: nextSupply / setSupply,
// AddCoins, SubtractCoins, the split-tier balance keys, the account tier
// through the real auth.AccountKeeper) over an in-memory store.  Two
// addresses, two denominations - "aaa" in the account tier (held inside the
// account object), "bbb" in the split tier (one store key per balance) or in
// the account tier as well - and SYMBOLIC amounts.  After a prologue that mints arbitrary holdings, k
// arbitrary operations run; after every operation, for each denomination the
// recorded supply equals the sum of the balances, a transfer moves exactly its
// amount, mint and burn change supply and balance by exactly their amount, and
// an operation that returns an error leaves every balance and supply as it was.

import (
	"bytes"
	"time"

	"github.com/gnolang/gno/tm2/pkg/crypto"
	"github.com/gnolang/gno/tm2/pkg/overflow"
	"github.com/gnolang/gno/tm2/pkg/sdk"
	"github.com/gnolang/gno/tm2/pkg/sdk/auth"
	"github.com/gnolang/gno/tm2/pkg/sdk/params"
	"github.com/gnolang/gno/tm2/pkg/std"
	store "github.com/gnolang/gno/tm2/pkg/store/types"
)

type verifC14Header struct{}

func (verifC14Header) GetChainID() string { return "c" }
func (verifC14Header) GetHeight() int64   { return 1 }
func (verifC14Header) GetTime() time.Time { return time.Time{} }
func (verifC14Header) AssertABCIHeader()  {}

// ---- store: a list of (key, value) kept in insertion order; iteration sorts
type verifC14KV struct {
	keys, vals [][]byte
}

func (s *verifC14KV) find(k []byte) int {
	for i := range s.keys {
		if bytes.Equal(s.keys[i], k) {
			return i
		}
	}
	return -1
}
func (s *verifC14KV) Get(_ *store.GasContext, k []byte) []byte {
	if i := s.find(k); i >= 0 {
		return s.vals[i]
	}
	return nil
}
func (s *verifC14KV) Has(_ *store.GasContext, k []byte) bool { return s.find(k) >= 0 }
func (s *verifC14KV) Set(_ *store.GasContext, k, v []byte) {
	if i := s.find(k); i >= 0 {
		s.vals[i] = v
		return
	}
	s.keys = append(s.keys, append([]byte(nil), k...))
	s.vals = append(s.vals, v)
}
func (s *verifC14KV) Delete(_ *store.GasContext, k []byte) {
	if i := s.find(k); i >= 0 {
		s.keys = append(s.keys[:i:i], s.keys[i+1:]...)
		s.vals = append(s.vals[:i:i], s.vals[i+1:]...)
	}
}

type verifC14Iter struct {
	start, end []byte
	keys, vals [][]byte
	pos        int
}

func (it *verifC14Iter) Domain() ([]byte, []byte) { return it.start, it.end }
func (it *verifC14Iter) Valid() bool              { return it.pos < len(it.keys) }
func (it *verifC14Iter) Next()                    { it.pos++ }
func (it *verifC14Iter) Key() []byte              { return it.keys[it.pos] }
func (it *verifC14Iter) Value() []byte            { return it.vals[it.pos] }
func (it *verifC14Iter) Error() error             { return nil }
func (it *verifC14Iter) Close() error             { return nil }

func (s *verifC14KV) Iterator(_ *store.GasContext, start, end []byte) store.Iterator {
	it := &verifC14Iter{start: start, end: end}
	for i, k := range s.keys {
		if (start == nil || bytes.Compare(start, k) <= 0) && (end == nil || bytes.Compare(k, end) < 0) {
			// insertion sort by key
			j := len(it.keys)
			it.keys = append(it.keys, nil)
			it.vals = append(it.vals, nil)
			for j > 0 && bytes.Compare(it.keys[j-1], k) > 0 {
				it.keys[j], it.vals[j] = it.keys[j-1], it.vals[j-1]
				j--
			}
			it.keys[j], it.vals[j] = k, s.vals[i]
		}
	}
	return it
}
func (s *verifC14KV) ReverseIterator(*store.GasContext, []byte, []byte) store.Iterator {
	panic("not used")
}
func (s *verifC14KV) CacheWrap() store.Store { panic("not used") }
func (s *verifC14KV) Write()                 {}

type verifC14MS struct {
	store.MultiStore
	kv *verifC14KV
}

func (ms verifC14MS) GetStore(store.StoreKey) store.Store { return ms.kv }

// ---- parameters: none set (no restricted denominations)
type verifC14Params struct{ params.ParamsKeeperI }

func (verifC14Params) GetStruct(ctx sdk.Context, key string, ptr any) {}

// ---- symbolic-run stand-ins for the amino codec (check config "func_stubs"):
// an encoded value is the index of a private copy of the object
var verifC14Objs []any

func verifC14Put(o any) []byte {
	switch v := o.(type) {
	case *std.BaseAccount:
		c := *v
		c.Coins = append(std.Coins(nil), v.Coins...)
		o = &c
	}
	verifC14Objs = append(verifC14Objs, o)
	return []byte{byte(len(verifC14Objs))}
}

func verifStubC14MarshalAny(o any) ([]byte, error) { return verifC14Put(o), nil }
func verifStubC14MustMarshal(o any) []byte         { return verifC14Put(o) }
func verifStubC14Unmarshal(bz []byte, ptr any) error {
	o := verifC14Objs[int(bz[0])-1]
	switch p := ptr.(type) {
	case *std.Account:
		c := *(o.(*std.BaseAccount))
		c.Coins = append(std.Coins(nil), c.Coins...)
		*p = &c
	case *uint64:
		*p = o.(uint64)
	default:
		panic("verif: unexpected decode target")
	}
	return nil
}

type verifC14Env struct {
	ctx  sdk.Context
	bank BankKeeper
	addr [2]crypto.Address
}

var verifC14Denoms = [2]string{"aaa", "bbb"}

func verifC14New() *verifC14Env {
	verifC14Objs = nil
	key := store.NewStoreKey("main")
	prm := verifC14Params{}
	acck := auth.NewAccountKeeper(key, prm, std.ProtoBaseAccount, std.ProtoBaseSessionAccount)
	e := &verifC14Env{}
	// tier layout: "aaa" in the account object and "bbb" under its own key,
	// or both inside the account object (a second gas / voucher denomination)
	tiers := []string{"aaa"}
	if verifChoose("both denominations in the account tier", 2) == 1 {
		tiers = []string{"aaa", "bbb"}
	}
	e.bank = NewBankKeeper(acck, prm, key, tiers)
	e.ctx = sdk.NewContext(sdk.RunTxModeDeliver, verifC14MS{kv: &verifC14KV{}}, verifC14Header{}, nil)
	e.addr[0][0], e.addr[1][0] = 1, 2
	return e
}

type verifC14State struct {
	bal    [2][2]int64 // [address][denom]
	supply [2]int64
}

func (e *verifC14Env) state() (s verifC14State) {
	for a := 0; a < 2; a++ {
		for d := 0; d < 2; d++ {
			s.bal[a][d] = e.bank.GetCoin(e.ctx, e.addr[a], verifC14Denoms[d])
		}
	}
	for d := 0; d < 2; d++ {
		s.supply[d] = e.bank.TotalSupply(e.ctx, verifC14Denoms[d])
	}
	return
}

// conserved: supply = sum of balances, nothing negative
func (e *verifC14Env) checkConserved(s verifC14State, when string) {
	for d := 0; d < 2; d++ {
		sum, ok := overflow.Add(s.bal[0][d], s.bal[1][d])
		verifAssert(ok && sum == s.supply[d], when+": the recorded supply equals the sum of all balances")
		verifAssert(s.bal[0][d] >= 0 && s.bal[1][d] >= 0 && s.supply[d] >= 0, when+": no balance or supply is negative")
	}
	for a := 0; a < 2; a++ {
		all := e.bank.GetCoins(e.ctx, e.addr[a])
		verifAssert(len(all) == 0 || all.IsValid(), when+": an address's holdings are a well-formed coin set")
		for d := 0; d < 2; d++ {
			verifAssert(all.AmountOf(verifC14Denoms[d]) == s.bal[a][d], when+": the holdings listed for an address agree with its per-denomination balance")
		}
	}
}

// an amount of 1 or 2 denominations, amounts symbolic (any int64 when `any`)
func verifC14Coins(name string, anyAmount bool) (std.Coins, [2]int64) {
	var cs std.Coins
	var amt [2]int64
	which := 1 + verifChoose(name+".denoms", 3) // bit 0: aaa, bit 1: bbb
	for d := 0; d < 2; d++ {
		if which&(1<<d) != 0 {
			v := verifNondetInt64(name + "." + verifC14Denoms[d])
			if !anyAmount {
				verifAssume(v > 0)
			}
			amt[d] = v
			cs = append(cs, std.Coin{Denom: verifC14Denoms[d], Amount: v})
		}
	}
	return cs, amt
}

func VerifC14_Conservation() {
	e := verifC14New()
	// prologue: arbitrary holdings, created by minting
	for a := 0; a < 2; a++ {
		if verifChoose("prologue.mint", 2) == 1 {
			cs, _ := verifC14Coins("init", false)
			err := e.bank.MintCoins(e.ctx, e.addr[a], cs)
			verifAssume(err == nil)
		}
	}
	s := e.state()
	e.checkConserved(s, "after the prologue")

	steps := 1 // both tiers: two operations after the prologue did not finish in 2400 s
	for i := 0; i < steps; i++ {
		kind := verifChoose("op", 3)
		a := verifChoose("addr", 2)
		cs, amt := verifC14Coins("amt", true)
		valid := cs.IsValid()
		var err error
		var pv any
		switch kind {
		case 0:
			pv = verifPanicValue(func() { err = e.bank.MintCoins(e.ctx, e.addr[a], cs) })
		case 1:
			pv = verifPanicValue(func() { err = e.bank.BurnCoins(e.ctx, e.addr[a], cs) })
		case 2:
			pv = verifPanicValue(func() { err = e.bank.SendCoins(e.ctx, e.addr[a], e.addr[1-a], cs) })
		}
		verifAssert(pv == nil, "bank operations report failure by an error, not a panic, from a conserved state")
		if pv != nil {
			return
		}
		t := e.state()
		if err != nil {
			verifReach("operation refused")
			verifAssert(t == s, "a refused operation leaves every balance and supply unchanged")
		} else {
			if !valid {
				// the one malformed amount that is not refused: a transfer of
				// nothing (SendCoins returns early when the amount is zero)
				verifReach("malformed amount accepted as a no-op")
				verifAssert(kind == 2 && t == s, "an operation on a malformed amount (zero or negative) is refused, or is a transfer of nothing that changes nothing")
			}
			want := s
			for d := 0; d < 2; d++ {
				switch kind {
				case 0:
					want.bal[a][d] += amt[d]
					want.supply[d] += amt[d]
				case 1:
					want.bal[a][d] -= amt[d]
					want.supply[d] -= amt[d]
				case 2:
					want.bal[a][d] -= amt[d]
					want.bal[1-a][d] += amt[d]
				}
			}
			switch kind {
			case 0:
				verifReach("minted")
				verifAssert(t == want, "a mint adds exactly its amount to the balance and to the supply and changes nothing else")
			case 1:
				verifReach("burned")
				verifAssert(t == want, "a burn removes exactly its amount from the balance and from the supply and changes nothing else")
			case 2:
				verifReach("sent")
				verifAssert(t == want, "a transfer moves exactly its amount and leaves the supply unchanged")
			}
		}
		e.checkConserved(t, "after an operation")
		s = t
	}
	verifReach("end")
}
