package bech32

import "strings"

// C45: bech32 encoding round-trips and decoding rejects damaged strings.

// verifC45Case picks a prefix and a payload length.  The fixed prefixes go
// with every size up to the address and key sizes; the arbitrary one- or
// two-character prefix (printable, not upper case) with payloads of 0..4 bytes.
func verifC45Case(roundTrip bool) (string, int) {
	sizes := []int{0, 1, 2, 3, 4}
	switch {
	case roundTrip && verifThorough():
		sizes = []int{0, 1, 2, 3, 4, 5, 6, 7, 8, 20, 33, 37}
	case roundTrip:
		sizes = []int{0, 1, 2, 3, 4, 20, 33}
	case verifThorough():
		sizes = []int{0, 1, 2, 3, 4, 5, 6}
	}
	k := 2
	if roundTrip {
		k = 3
	}
	switch verifChoose("hrp", k) {
	case 0:
		return "g", sizes[verifChoose("n", len(sizes))]
	case 1:
		return "gpub", sizes[verifChoose("n", len(sizes))]
	}
	n := 1 + verifChoose("hrplen", 2)
	b := verifBytes("hrpc", n)
	for _, c := range b {
		verifAssume(c >= 33 && c <= 126)
		verifAssume(c < 'A' || c > 'Z')
	}
	return string(b), verifChoose("n", 5)
}

// Encode then Decode returns the same prefix and payload.
func VerifC45_RoundTrip() {
	hrp, n := verifC45Case(true)
	data := verifBytes("data", n)
	s, err := Encode(hrp, data)
	verifAssert(err == nil, "encoding a valid prefix and payload succeeds")
	if err != nil {
		return
	}
	h2, d2, err := Decode(s)
	verifAssert(err == nil, "decoding an encoded string succeeds")
	if err != nil {
		return
	}
	verifReach("round trip decoded")
	verifAssert(h2 == hrp, "decoding returns the prefix that was encoded")
	verifAssert(string(d2) == string(data), "decoding returns the payload that was encoded")
}

// Every single-character substitution of a valid string is rejected.
// Replacing a letter by its own upper-case form is excluded: when every other
// character is a digit the result is the all-upper-case spelling of the same
// value, which BIP-173 decoders must accept.
func VerifC45_SubstitutionRejected() {
	hrp, n := verifC45Case(false)
	data := verifBytes("data", n)
	s, err := Encode(hrp, data)
	verifAssume(err == nil)
	b := []byte(s)
	p := verifChoose("pos", len(b))
	c := verifNondetUint8("c")
	verifAssume(c != b[p])
	// an upper-case spelling of the same character is not a different symbol:
	// "G1..." with an all-digit data part is the BIP-173 upper-case form of "g1..."
	verifAssume(!(c >= 'A' && c <= 'Z' && c+32 == b[p]))
	b[p] = c
	var (
		derr error
		h2   string
	)
	pv := verifPanicValue(func() { h2, _, derr = Decode(string(b)) })
	verifAssert(pv == nil, "decoding a damaged string does not panic")
	if pv != nil {
		return
	}
	verifReach("substituted string decoded or rejected")
	// Writing the separator '1' over a data character moves the prefix/data
	// boundary; for about one payload in 2^30 the six characters that follow
	// are a valid checksum of the longer prefix with an empty payload (the
	// solver produces such a payload, see DESIGN.md).  Bech32 itself cannot
	// exclude this; the callers (crypto.GetFromBech32) compare the returned
	// prefix with the expected one, so the string is still rejected there.
	if derr == nil && h2 != hrp {
		verifReach("damaged string parses under a different prefix (rejected by the caller's prefix comparison)")
	}
	verifAssert(derr != nil || h2 != hrp, "a single-character substitution of a valid string is rejected")
}

// Decoding an arbitrary string never panics; what it accepts is exactly a
// canonical encoding: well-formed, one case, and re-encoding gives the string back.
func VerifC45_DecodeArbitrary() {
	max := 8
	if verifThorough() {
		max = 9
	}
	n := verifChoose("len", max+1)
	s := verifString("s", n)
	var (
		hrp  string
		data []byte
		err  error
	)
	pv := verifPanicValue(func() { hrp, data, err = Decode(s) })
	verifAssert(pv == nil, "decoding an arbitrary string does not panic")
	if pv != nil {
		return
	}
	if err != nil {
		verifReach("arbitrary string rejected")
		return
	}
	verifReach("arbitrary string accepted")
	verifAssert(n >= 8, "a string shorter than prefix+separator+checksum is rejected")
	lower, upper := false, false
	for i := 0; i < n; i++ {
		c := s[i]
		verifAssert(c >= 33 && c <= 126, "a string with a character outside the printable range is rejected")
		if c >= 'a' && c <= 'z' {
			lower = true
		}
		if c >= 'A' && c <= 'Z' {
			upper = true
		}
	}
	verifAssert(!(lower && upper), "a mixed-case string is rejected")
	again, eerr := Encode(hrp, data)
	verifAssert(eerr == nil, "an accepted string's prefix and payload encode again")
	if eerr != nil {
		return
	}
	verifAssert(again == strings.ToLower(s), "an accepted string is the canonical encoding of what it decodes to (its checksum is the right one)")
}
