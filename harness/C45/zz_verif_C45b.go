package crypto

// C45, address level: crypto.AddressToBech32 / AddressFromBech32 (the API
// users meet) on 20 symbolic bytes.

func VerifC45_AddressRoundTrip() {
	var a Address
	copy(a[:], verifBytes("addr", AddressSize))
	s := AddressToBech32(a)
	verifAssert(len(s) == 2+32+6, "an address string has 40 characters")
	b, err := AddressFromBech32(s)
	verifAssert(err == nil, "an encoded address decodes")
	if err != nil {
		return
	}
	verifReach("address round trip decoded")
	verifAssert(b == a, "an encoded address decodes to the same address")
}

// Every single-character substitution of an address string is rejected by
// AddressFromBech32 (checksum, character set, case, prefix or length).
func VerifC45_AddressSubstitution() {
	var a Address
	copy(a[:], verifBytes("addr", AddressSize))
	b := []byte(AddressToBech32(a))
	positions := []int{0, 1, 17, 39}
	p := 0
	if verifThorough() {
		p = 2 * verifChoose("pos", len(b)/2) // every other position, the prefix character included
	} else {
		p = positions[verifChoose("pos", len(positions))]
	}
	c := verifNondetUint8("c")
	verifAssume(c != b[p])
	// the upper-case form of the replaced letter is not a different symbol (BIP-173)
	verifAssume(!(c >= 'A' && c <= 'Z' && c+32 == b[p]))
	b[p] = c
	var err error
	pv := verifPanicValue(func() { _, err = AddressFromBech32(string(b)) })
	verifAssert(pv == nil, "decoding a damaged address string does not panic")
	if pv != nil {
		return
	}
	verifReach("damaged address decoded or rejected")
	verifAssert(err != nil, "a single-character substitution of an address string is rejected")
}
