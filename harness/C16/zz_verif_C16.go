package auth

// Harness for C16 (session keys cannot exceed their spend limit).
// A session account with a symbolic limit, symbolic already-used amount,
// symbolic period/reset, and a sequence of spends (check-only or deducting)
// at non-decreasing symbolic block times with symbolic amounts.

import (
	"math/big"

	"github.com/gnolang/gno/tm2/pkg/std"
)

func verifC16Coins(amt int64) std.Coins {
	if amt == 0 {
		return nil
	}
	return std.Coins{{Denom: "ugnot", Amount: amt}}
}

func verifC16Amount(c std.Coins) int64 {
	if len(c) == 0 {
		return 0
	}
	return c[0].Amount
}

func VerifC16_SpendWindow() {
	steps := 3
	if verifThorough() {
		steps = 4
	}
	limit := verifNondetInt64("limit")
	used0 := verifNondetInt64("used0")
	period := verifNondetInt64("period")
	reset0 := verifNondetInt64("reset0")
	verifAssume(limit > 0)
	verifAssume(used0 >= 0)
	verifAssume(used0 <= limit)
	verifAssume(period >= 0)
	verifAssume(period <= std.MaxSpendPeriod)
	verifAssume(reset0 >= 0)
	verifAssume(reset0 <= 1<<40)

	acc := &std.BaseSessionAccount{}
	acc.SpendLimit = verifC16Coins(limit)
	acc.SpendUsed = verifC16Coins(used0)
	acc.SpendPeriod = period
	acc.SpendReset = reset0

	// reference model of the documented rule
	mUsed := big.NewInt(used0)
	mReset := reset0
	periodTotal := big.NewInt(used0) // value moved out in the current period
	lim := big.NewInt(limit)

	t := reset0
	for s := 0; s < steps; s++ {
		dt := verifNondetInt64("dt")
		verifAssume(dt >= 0)
		verifAssume(dt <= 1<<40)
		t += dt
		amt := verifNondetInt64("amount")
		verifAssume(amt > 0)
		amount := verifC16Coins(amt)

		// what the rule says
		expired := period > 0 && t >= mReset+period
		base := new(big.Int).Set(mUsed)
		if expired {
			base.SetInt64(0)
		}
		fits := new(big.Int).Add(base, big.NewInt(amt)).Cmp(lim) <= 0

		if verifChoose("op", 2) == 0 {
			usedBefore, resetBefore := verifC16Amount(acc.SpendUsed), acc.SpendReset
			var err error
			p := verifPanics(func() { err = CheckSessionSpend(acc, amount, t) })
			verifAssert(p || (err == nil) == fits, "CheckSessionSpend allows exactly the spends that fit the remaining limit")
			verifAssert(!p || !fits, "CheckSessionSpend refuses (or panics on overflow) only spends that do not fit")
			verifAssert(verifC16Amount(acc.SpendUsed) == usedBefore && acc.SpendReset == resetBefore, "CheckSessionSpend does not modify the account")
			continue
		}
		var err error
		p := verifPanics(func() { err = DeductSessionSpend(acc, amount, t) })
		ok := !p && err == nil
		verifAssert(ok == fits, "DeductSessionSpend accepts exactly the spends that fit the remaining limit")
		if ok {
			if expired {
				mUsed.SetInt64(0)
				mReset = t
				periodTotal.SetInt64(0)
			}
			mUsed.Add(mUsed, big.NewInt(amt))
			periodTotal.Add(periodTotal, big.NewInt(amt))
			verifAssert(periodTotal.Cmp(lim) <= 0, "total moved out within one spend period never exceeds the limit")
			verifAssert(big.NewInt(verifC16Amount(acc.SpendUsed)).Cmp(mUsed) == 0, "recorded usage equals the sum of accepted spends of the period")
			verifAssert(acc.SpendReset == mReset, "the period starts at the first accepted spend after expiry")
		} else {
			// a refused spend moves nothing: the effective usage is unchanged
			eff := big.NewInt(verifC16Amount(acc.SpendUsed))
			effExpired := period > 0 && t >= acc.SpendReset+period
			if effExpired {
				eff.SetInt64(0)
			}
			verifAssert(eff.Cmp(base) == 0, "a refused spend leaves the effective usage unchanged")
			if expired {
				// the implementation may already have rolled the period over
				mUsed.SetInt64(0)
				mReset = acc.SpendReset
				periodTotal.SetInt64(0)
			}
		}
	}
	verifReach("end")
}

// A spend in a denomination the limit does not mention, or with no limit at
// all, is always refused.
func VerifC16_ForeignDenomAndNoLimit() {
	limit := verifNondetInt64("limit")
	verifAssume(limit > 0)
	amt := verifNondetInt64("amount")
	verifAssume(amt > 0)
	t := verifNondetInt64("t")
	verifAssume(t >= 0)
	verifAssume(t <= 1<<40)
	acc := &std.BaseSessionAccount{}
	if verifChoose("haslimit", 2) == 1 {
		acc.SpendLimit = verifC16Coins(limit)
	}
	amount := std.Coins{{Denom: "foo", Amount: amt}}
	if verifChoose("both", 2) == 1 {
		amount = std.Coins{{Denom: "foo", Amount: amt}, {Denom: "ugnot", Amount: 1}}
	}
	err1 := CheckSessionSpend(acc, amount, t)
	err2 := DeductSessionSpend(acc, amount, t)
	verifAssert(err1 != nil && err2 != nil, "a denomination outside the limit (or no limit) is refused")
	verifAssert(len(acc.SpendUsed) == 0, "and nothing is recorded")
	verifReach("end")
}
