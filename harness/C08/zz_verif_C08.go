package banker

// Harness for C08 (coins leave an address only with authority), the native
// kernel of the origin-send rule: coins sent along with a call can be spent
// through an origin-send banker only up to the amount sent.  k calls of
// X_bankerSendCoins with a SYMBOLIC banker type, denominations chosen from a
// small alphabet (unsorted and duplicate lists included) and unconstrained
// int64 amounts, against a symbolic OriginSend budget.  The chain-side banker
// is a stand-in that, like the real one (vm.SDKBanker -> bank.SendCoins),
// ignores a zero amount, refuses (panics on) a malformed one and otherwise
// records the transfer.

import (
	gno "github.com/gnolang/gno/gnovm/pkg/gnolang"
	"github.com/gnolang/gno/gnovm/stdlibs/internal/execctx"
	"github.com/gnolang/gno/tm2/pkg/crypto"
	"github.com/gnolang/gno/tm2/pkg/std"
)

func verifStubC08PanicString(m *gno.Machine, s string) { panic(s) }

type verifC08Banker struct {
	sent  [2]int64 // total moved per denomination
	calls int
	last  std.Coins
	from  crypto.Bech32Address
	to    crypto.Bech32Address
}

// (not a package variable: this package's initialiser is not run by the engine)
func verifC08Denom(d int) string {
	if d == 0 {
		return "aaa"
	}
	return "bbb"
}

func (b *verifC08Banker) GetCoins(crypto.Bech32Address) std.Coins      { return nil }
func (b *verifC08Banker) GetCoin(crypto.Bech32Address, string) int64   { return 0 }
func (b *verifC08Banker) TotalCoin(string) int64                       { return 0 }
func (b *verifC08Banker) IssueCoin(crypto.Bech32Address, string, int64)  {}
func (b *verifC08Banker) RemoveCoin(crypto.Bech32Address, string, int64) {}
func (b *verifC08Banker) SendCoins(from, to crypto.Bech32Address, amt std.Coins) {
	if amt.IsZero() {
		return
	}
	if !amt.IsValid() {
		panic("invalid coins")
	}
	b.calls++
	b.last, b.from, b.to = amt, from, to
	for _, c := range amt {
		for d := 0; d < 2; d++ {
			if c.Denom == verifC08Denom(d) {
				b.sent[d] += c.Amount
			}
		}
	}
}

func verifC08Same(a, b std.Coins) bool {
	if len(a) != len(b) {
		return false
	}
	for i := range a {
		if a[i] != b[i] {
			return false
		}
	}
	return true
}

func VerifC08_OriginSendBudget() {
	bk := &verifC08Banker{}
	var budget std.Coins
	var lim [2]int64
	for d := 0; d < 2; d++ {
		if verifChoose("budget has "+verifC08Denom(d), 2) == 1 {
			lim[d] = verifNondetInt64("limit")
			verifAssume(lim[d] > 0)
			budget = append(budget, std.Coin{Denom: verifC08Denom(d), Amount: lim[d]})
		}
	}
	spent := std.Coins{}
	m := &gno.Machine{Context: execctx.ExecContext{OriginSend: budget, OriginSendSpent: &spent, Banker: bk}}

	steps := 2 // both tiers: a third call multiplies the 39 000 paths of two by ~150
	for s := 0; s < steps; s++ {
		// 1 or 2 entries, any order, duplicates allowed, any amounts
		n := 1 + verifChoose("entries", 2)
		var denoms []string
		var amounts []int64
		for i := 0; i < n; i++ {
			denoms = append(denoms, verifC08Denom(verifChoose("denom", 2)))
			amounts = append(amounts, verifNondetInt64("amount"))
		}
		bt := uint8(verifChoose("banker type", 5)) // 0 readonly, 1 origin send, 2 realm send, 3 realm issue, 4 invalid
		before, callsBefore, spentBefore := bk.sent, bk.calls, append(std.Coins(nil), spent...)
		p := verifPanics(func() { X_bankerSendCoins(m, bt, "from", "to", denoms, amounts) })
		if p {
			verifReach("refused")
			verifAssert(bk.sent == before && bk.calls == callsBefore, "a refused send moves nothing")
			verifAssert(verifC08Same(spent, spentBefore), "a refused send does not count against the budget")
		} else {
			verifAssert(bt == btOriginSend || bt == btRealmSend || bt == btRealmIssue, "only sending banker types send")
			if bk.calls > callsBefore {
				verifReach("sent")
				verifAssert(bk.calls == callsBefore+1 && bk.from == "from" && bk.to == "to", "an accepted send reaches the chain banker once, with the addresses given")
			}
		}
		if bt != btOriginSend {
			// only origin-send spending is budgeted; undo so that the budget
			// invariant below speaks about origin-send transfers alone
			bk.sent = before
		}
		for d := 0; d < 2; d++ {
			verifAssert(bk.sent[d] <= lim[d], "what origin-send bankers moved never exceeds the coins sent along with the call")
			verifAssert(bk.sent[d] >= 0, "origin-send totals never go negative")
			verifAssert(spent.AmountOf(verifC08Denom(d)) == bk.sent[d], "the recorded origin-send spending equals what was moved")
		}
	}
	verifReach("end")
}

// Expand / Compact are inverse on coin lists
func VerifC08_ExpandCompact() {
	n := verifChoose("n", 3)
	var cs std.Coins
	for i := 0; i < n; i++ {
		cs = append(cs, std.Coin{Denom: verifC08Denom(verifChoose("denom", 2)), Amount: verifNondetInt64("amount")})
	}
	d, a := ExpandCoins(cs)
	back := CompactCoins(d, a)
	same := len(back) == len(cs)
	for i := 0; same && i < len(cs); i++ {
		same = back[i] == cs[i]
	}
	verifAssert(same, "CompactCoins(ExpandCoins(c)) == c")
	verifReach("end")
}
