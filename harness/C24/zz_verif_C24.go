package bptree

// Harness for C24 (B+ tree hashes depend only on the contents): the
// mini-merkle kernel every node hash is made of. A node that is updated in
// place (SetSlot: 5 hashes) and a node that is rebuilt from its slots after a
// reload (Build / RebuildMiniMerkle: 31 hashes) must carry the same hashes,
// and the sibling path handed to proofs must fold back to the node's root.
// SHA-256 is an uninterpreted injective function; slot hashes are symbolic.

func verifC24Occupied(k int) (m MiniMerkle, slots [B]Hash) {
	m = NewMiniMerkle()
	for i := 0; i < k; i++ {
		var h Hash
		copy(h[:], verifBytes("slot", HashSize))
		verifAssume(h != sentinelHash)
		slots[i] = h
		m.tree[B+i] = h
	}
	m.Build()
	return
}

// quick: slots at the edges and across the middle; thorough: every slot
func verifC24Slot(name string) int {
	if verifThorough() {
		return verifChoose(name, B)
	}
	return []int{0, 1, 15, 16, 31}[verifChoose(name, 5)]
}

func verifC24Occupancy() int {
	// nodes fill their slots from 0 upwards: 0..B occupied slots
	ks := []int{0, 1, 2, 3, 16, 17, 31, 32}
	if verifThorough() {
		return verifChoose("occupied", B+1)
	}
	return ks[verifChoose("occupied", len(ks))]
}

func VerifC24_IncrementalEqualsRebuild() {
	k := verifC24Occupancy()
	m, _ := verifC24Occupied(k)
	// one in-place update: a new hash, or the sentinel (slot cleared), at any slot
	idx := verifC24Slot("index")
	var nh Hash
	if verifChoose("clear", 2) == 0 {
		copy(nh[:], verifBytes("newhash", HashSize))
		verifAssume(nh != sentinelHash)
	}
	inc := m
	inc.SetSlot(idx, nh)
	reb := m
	reb.tree[B+idx] = nh
	reb.Build()
	for i := 1; i < 2*B; i++ {
		verifAssert(inc.tree[i] == reb.tree[i], "SetSlot leaves every mini-merkle node equal to a full rebuild")
	}
	verifAssert(inc.Root() == reb.Root() && inc.GetSlot(idx) == nh, "same root, slot stored")
	// sibling path of any slot folds back to the root
	j := verifC24Slot("proved")
	sib, pos := inc.SiblingPath(j)
	verifAssert(len(sib) == miniMerkleDepth && len(pos) == miniMerkleDepth, "sibling path has log2(B) entries")
	h := inc.GetSlot(j)
	for l := range sib {
		if pos[l] == 0 {
			h = HashInner(h, sib[l])
		} else {
			h = HashInner(sib[l], h)
		}
	}
	verifAssert(h == inc.Root(), "the sibling path folds to the node's root")
	verifReach("end")
}

func VerifC24_EmptyAndSentinel() {
	m := NewMiniMerkle()
	verifAssert(m.Root() == sentinelHash, "an empty node hashes to the sentinel")
	m.Build()
	verifAssert(m.Root() == sentinelHash, "the sentinel short-circuit holds at every level")
	var h Hash
	copy(h[:], verifBytes("h", HashSize))
	verifAssume(h != sentinelHash)
	idx := verifChoose("index", B)
	m.SetSlot(idx, h)
	verifAssert(m.Root() != sentinelHash, "a node with an occupied slot does not hash to the sentinel")
	m.SetSlot(idx, sentinelHash)
	verifAssert(m.Root() == sentinelHash, "clearing the slot restores the sentinel")
	verifReach("end")
}

// leaf nodes: incremental slot hash = the hash RebuildMiniMerkle computes
func VerifC24_LeafRebuild() {
	n := &LeafNode{}
	n.miniTree = NewMiniMerkle()
	k := 1 + verifChoose("keys", 3)
	for i := 0; i < k; i++ {
		n.keys[i] = verifBytes("key", 1+verifChoose("keylen", 2))
		copy(n.valueHashes[i][:], verifBytes("vhash", HashSize))
		n.miniTree.SetSlot(i, HashLeafSlotFromValueHash(n.keys[i], n.valueHashes[i]))
	}
	n.numKeys = int16(k)
	inc := n.Hash()
	n.RebuildMiniMerkle()
	verifAssert(n.Hash() == inc, "a leaf rebuilt from its keys and value hashes has the hash it had in memory")
	verifReach("end")
}

// inner nodes: the hash after RebuildMiniMerkle depends only on the child
// hashes the node holds now, whatever consistent heap an earlier occupancy
// left behind (a node that lost or gained children at the end, or had child
// hashes replaced, before the rebuild)
func VerifC24_InnerRebuildFromStale() {
	n := &InnerNode{}
	n.miniTree = NewMiniMerkle()
	// earlier state: k0 children, kept consistent through SetSlot
	k0 := 1 + verifChoose("before", 4)
	var old [4]Hash
	for i := 0; i < k0; i++ {
		copy(old[i][:], verifBytes("old", HashSize))
		n.childHashes[i] = old[i]
		n.miniTree.SetSlot(i, old[i])
	}
	// now: k children; a child either keeps its earlier hash or has a new one
	k := 1 + verifChoose("now", 4)
	for i := 0; i < B; i++ {
		n.childHashes[i] = Hash{}
	}
	for i := 0; i < k; i++ {
		if i < k0 && verifChoose("same", 2) == 1 {
			n.childHashes[i] = old[i]
		} else {
			copy(n.childHashes[i][:], verifBytes("new", HashSize))
		}
	}
	n.numKeys = int16(k - 1)
	n.RebuildMiniMerkle()

	fresh := &InnerNode{}
	fresh.miniTree = NewMiniMerkle()
	for i := 0; i < k; i++ {
		fresh.childHashes[i] = n.childHashes[i]
	}
	fresh.numKeys = int16(k - 1)
	fresh.RebuildMiniMerkle()
	verifAssert(n.Hash() == fresh.Hash(), "an inner node rebuilt in place has the hash of a freshly built node with the same children")
	verifReach("end")
}
