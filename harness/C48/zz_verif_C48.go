package bitarray

// Harness for C48 (bit arrays behave like boolean vectors).
// Arrays have symbolic 64-bit words; sizes are enumerated at and around word
// boundaries; bit positions are symbolic.

var verifC48Sizes = [...]int{0, 1, 63, 64, 65, 128, 130}

// verifC48Arr builds an array of the chosen size with arbitrary content and no
// bits set above Bits (what the constructors and Set/Or/And/Sub produce).
func verifC48Arr(name string) *BitArray {
	bits := verifC48Sizes[verifChoose(name+".size", len(verifC48Sizes))]
	return verifC48ArrOf(name, bits, false)
}

func verifC48ArrOf(name string, bits int, hidden bool) *BitArray {
	ba := NewBitArray(bits)
	if ba == nil {
		return nil
	}
	for k := range ba.Elems {
		v := verifNondetUint64(name + ".elem")
		if !hidden && k == len(ba.Elems)-1 && bits%64 != 0 {
			verifAssume(v>>(uint(bits)%64) == 0)
		}
		ba.Elems[k] = v
	}
	return ba
}

// verifC48Bit is the boolean-vector reading of the representation.
func verifC48Bit(ba *BitArray, i int) bool {
	if ba == nil || i < 0 || i >= ba.Bits {
		return false
	}
	return (ba.Elems[i/64]>>(uint(i)%64))&1 == 1
}

func verifC48Index(name string) int {
	i := verifNondetInt(name)
	verifAssume(i >= 0)
	verifAssume(i < 200)
	return i
}

func verifC48Clone(ba *BitArray) *BitArray {
	if ba == nil {
		return nil
	}
	return &BitArray{Bits: ba.Bits, Elems: append([]uint64(nil), ba.Elems...)}
}

func verifC48SameRep(x, y *BitArray) bool {
	if x == nil || y == nil {
		return x == nil && y == nil
	}
	if x.Bits != y.Bits || len(x.Elems) != len(y.Elems) {
		return false
	}
	for k := range x.Elems {
		if x.Elems[k] != y.Elems[k] {
			return false
		}
	}
	return true
}

func VerifC48_GetSet() {
	A := verifC48Arr("A")
	i, j := verifC48Index("i"), verifC48Index("j")
	v := verifNondetBool("v")
	verifAssert(A.Size() == verifC48SizeOf(A), "Size")
	verifAssert(A.GetIndex(i) == verifC48Bit(A, i), "GetIndex reads the bit, false out of range")
	before := verifC48Bit(A, j)
	ok := A.SetIndex(i, v)
	verifAssert(ok == (i < verifC48SizeOf(A)), "SetIndex succeeds exactly in range")
	if ok {
		verifAssert(A.GetIndex(i) == v, "SetIndex then GetIndex")
	}
	if j != i || !ok {
		verifAssert(verifC48Bit(A, j) == before, "SetIndex leaves other bits alone")
	}
	verifReach("end")
}

func verifC48SizeOf(ba *BitArray) int {
	if ba == nil {
		return 0
	}
	return ba.Bits
}

func VerifC48_Copy() {
	A := verifC48Arr("A")
	i := verifC48Index("i")
	C := A.Copy()
	verifAssert(C.Size() == A.Size(), "Copy keeps the size")
	verifAssert(C.GetIndex(i) == verifC48Bit(A, i), "Copy keeps every bit")
	if C != nil {
		C.SetIndex(i, !C.GetIndex(i))
		verifAssert(A.GetIndex(i) == verifC48Bit(A, i), "Copy does not alias the original")
	}
	verifReach("end")
}

func VerifC48_Or() {
	A, B := verifC48Arr("A"), verifC48Arr("B")
	A0, B0 := verifC48Clone(A), verifC48Clone(B)
	i := verifC48Index("i")
	R := A.Or(B)
	verifAssert(R.Size() == max(A.Size(), B.Size()), "Or has the larger size")
	verifAssert(R.GetIndex(i) == (verifC48Bit(A, i) || verifC48Bit(B, i)), "Or is bitwise or with zero padding")
	verifAssert(verifC48SameRep(A, A0) && verifC48SameRep(B, B0), "Or leaves its operands alone")
	verifReach("end")
}

func VerifC48_And() {
	A, B := verifC48Arr("A"), verifC48Arr("B")
	A0, B0 := verifC48Clone(A), verifC48Clone(B)
	i := verifC48Index("i")
	R := A.And(B)
	if A == nil || B == nil {
		verifAssert(R == nil, "And with nil is nil")
	} else {
		verifAssert(R.Size() == min(A.Size(), B.Size()), "And has the smaller size")
		verifAssert(R.GetIndex(i) == (verifC48Bit(A, i) && verifC48Bit(B, i)), "And is bitwise and")
	}
	verifAssert(verifC48SameRep(A, A0) && verifC48SameRep(B, B0), "And leaves its operands alone")
	verifReach("end")
}

func VerifC48_Sub() {
	A, B := verifC48Arr("A"), verifC48Arr("B")
	A0, B0 := verifC48Clone(A), verifC48Clone(B)
	i := verifC48Index("i")
	R := A.Sub(B)
	if A == nil || B == nil {
		verifAssert(R == nil, "Sub with nil is nil")
	} else {
		verifAssert(R.Size() == A.Size(), "Sub has the receiver's size")
		verifAssert(R.GetIndex(i) == (verifC48Bit(A, i) && !verifC48Bit(B, i)), "Sub clears the bits of the argument")
	}
	verifAssert(verifC48SameRep(A, A0) && verifC48SameRep(B, B0), "Sub leaves its operands alone")
	verifReach("end")
}

func VerifC48_Not() {
	A := verifC48Arr("A")
	A0 := verifC48Clone(A)
	i := verifC48Index("i")
	R := A.Not()
	verifAssert(R.Size() == A.Size(), "Not keeps the size")
	verifAssert(R.GetIndex(i) == (i < A.Size() && !verifC48Bit(A, i)), "Not flips every bit below Size")
	verifAssert(verifC48SameRep(A, A0), "Not leaves its operand alone")
	verifReach("end")
}

// verifC48Empty / Full: the boolean-vector meaning computed word by word with
// the bits above Bits masked off.
func verifC48Masked(ba *BitArray, k int) uint64 {
	w := ba.Elems[k]
	if k == len(ba.Elems)-1 && ba.Bits%64 != 0 {
		w &= (uint64(1) << (uint(ba.Bits) % 64)) - 1
	}
	return w
}

func verifC48Empty(ba *BitArray) bool {
	if ba == nil {
		return true
	}
	e := true
	for k := range ba.Elems {
		e = e && verifC48Masked(ba, k) == 0
	}
	return e
}

func verifC48Full(ba *BitArray) bool {
	if ba == nil {
		return true
	}
	f := true
	for k := range ba.Elems {
		want := ^uint64(0)
		if k == len(ba.Elems)-1 && ba.Bits%64 != 0 {
			want = (uint64(1) << (uint(ba.Bits) % 64)) - 1
		}
		f = f && verifC48Masked(ba, k) == want
	}
	return f
}

func VerifC48_EmptyFull() {
	A := verifC48Arr("A")
	verifAssert(A.IsEmpty() == verifC48Empty(A), "IsEmpty <=> no bit below Size is set")
	verifAssert(A.IsFull() == verifC48Full(A), "IsFull <=> every bit below Size is set")
	verifReach("end")
}

// Arrays reachable through the API alone: Not() of a clean array.
func VerifC48_NotThenEmptyFull() {
	A := verifC48Arr("A")
	N := A.Not()
	verifAssert(N.IsFull() == verifC48Empty(A), "Not().IsFull() <=> original empty")
	if A != nil && A.Bits%64 != 0 {
		verifAssert(N.IsEmpty() == verifC48Full(A), "Not().IsEmpty() <=> original full [size not a multiple of 64]")
	} else {
		verifAssert(N.IsEmpty() == verifC48Full(A), "Not().IsEmpty() <=> original full [size a multiple of 64]")
	}
	verifReach("end")
}

func VerifC48_NotThenOr() {
	A, B := verifC48Arr("A"), verifC48Arr("B")
	i := verifC48Index("i")
	R := A.Not().Or(B)
	want := (i < A.Size() && !verifC48Bit(A, i)) || verifC48Bit(B, i)
	if A != nil && A.Bits%64 != 0 && B.Size() > A.Size() {
		verifAssert(R.GetIndex(i) == want, "Not().Or(longer): bits above the shorter operand are those of the longer one")
	} else {
		verifAssert(R.GetIndex(i) == want, "Not().Or(o) is the bitwise or of the flipped vector")
	}
	verifReach("end")
}

func VerifC48_Bytes() {
	A := verifC48Arr("A")
	if A == nil {
		verifReach("end")
		return
	}
	bz := A.Bytes()
	verifAssert(len(bz) == (A.Bits+7)/8, "Bytes length")
	for k := range bz {
		verifAssert(bz[k] == byte(A.Elems[k/8]>>(8*(uint(k)%8))), "Bytes is little endian")
	}
	verifReach("end")
}

// getTrueIndices branches per bit, so it is explored on small arrays only.
func VerifC48_TrueIndices() {
	bits := 1 + verifChoose("bits", 6)
	A := verifC48ArrOf("A", bits, false)
	idx := A.getTrueIndices()
	n := 0
	for i := 0; i < bits; i++ {
		if verifC48Bit(A, i) {
			verifAssert(n < len(idx) && idx[n] == i, "getTrueIndices lists set bits in order")
			n++
		}
	}
	verifAssert(n == len(idx), "getTrueIndices lists nothing else")
	verifReach("end")
}
