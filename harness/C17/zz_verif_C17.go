package auth

// Harness for C17 (the block gas price follows its adjustment rule).
// Inputs are exactly what Params.Validate and ValidateConsensusParams admit.

import (
	"math/big"

	"github.com/gnolang/gno/tm2/pkg/std"
)

func VerifC17_Rule() {
	last := verifNondetInt64("lastPrice")
	gasUsed := verifNondetInt64("gasUsed")
	maxGas := verifNondetInt64("maxGas")
	ratio := verifNondetInt64("targetGasRatio")
	comp := verifNondetInt64("compressor")
	initp := verifNondetInt64("initialPrice")
	verifAssume(last >= 0)
	verifAssume(gasUsed >= 0)
	verifAssume(maxGas >= -1)
	verifAssume(ratio >= 0)
	verifAssume(ratio <= 100)
	verifAssume(comp >= 1)
	verifAssume(initp >= 0)
	if maxGas > 0 {
		// the block gas meter is created with limit MaxGas: consumption is clamped
		verifAssume(gasUsed <= maxGas)
	}

	params := Params{GasPricesChangeCompressor: comp, TargetGasRatio: ratio,
		InitialGasPrice: std.GasPrice{Gas: 1000, Price: std.Coin{Denom: "ugnot", Amount: initp}}}
	lgp := std.GasPrice{Gas: 1000, Price: std.Coin{Denom: "ugnot", Amount: last}}

	var out std.GasPrice
	gk := GasPriceKeeper{}
	panicked := verifPanics(func() { out = gk.calcBlockGasPrice(lgp, gasUsed, maxGas, params) })

	// target = floor(maxGas*ratio/100) as the code documents it
	target := new(big.Int).Mul(big.NewInt(maxGas), big.NewInt(ratio))
	target.Div(target, big.NewInt(100))
	used := big.NewInt(gasUsed)
	disabled := last == 0 || ratio == 0

	if panicked {
		switch {
		case disabled:
			verifAssert(false, "never panics: dynamic pricing disabled")
		case target.Sign() == 0:
			verifAssert(false, "never panics: target gas is zero (MaxGas*TargetGasRatio < 100) and the block used gas")
		case used.Cmp(target) > 0:
			verifAssert(false, "never panics: price increase")
		default:
			verifAssert(false, "never panics: price decrease")
		}
		verifReach("panicked")
		return
	}

	verifAssert(out.Gas == lgp.Gas && out.Price.Denom == "ugnot", "gas unit and denom preserved")
	np := out.Price.Amount
	switch {
	case disabled:
		verifAssert(np == last, "stays put when dynamic pricing is disabled")
	case used.Cmp(target) == 0:
		verifAssert(np == last, "stays put when usage equals the target")
	case used.Cmp(target) > 0:
		verifAssert(np > last, "moves up by at least one unit when usage exceeds the target")
	default:
		if last > initp {
			verifAssert(np < last, "moves down by at least one unit when usage is below the target")
		}
		verifAssert(np >= initp, "never below the configured initial price")
		if last <= initp {
			verifAssert(np == initp, "at or below the floor the price is the initial price")
		}
	}
	verifReach("end")
}
