package state

// Harness for C41 (block and state stores), validator-set history kernel:
// saveValidatorsInfo stores the full set only at the height of the last
// change and at checkpoint heights; LoadValidators must therefore look the
// set up at a height that (a) holds a full set and (b) is not older than the
// last change. Heights are SYMBOLIC.

import (
	"encoding/binary"

	"github.com/gnolang/gno/tm2/pkg/bft/types"
	dbm "github.com/gnolang/gno/tm2/pkg/db"
)

// ---- a map-backed DB (embedding the interface for the methods not used)
type verifC41DB struct {
	dbm.DB
	keys, vals [][]byte
}

func (d *verifC41DB) Get(k []byte) ([]byte, error) {
	for i := len(d.keys) - 1; i >= 0; i-- {
		if string(d.keys[i]) == string(k) {
			return d.vals[i], nil
		}
	}
	return nil, nil
}
func (d *verifC41DB) Set(k, v []byte) error {
	d.keys, d.vals = append(d.keys, k), append(d.vals, v)
	return nil
}

// ---- symbolic-run stand-ins (check config "func_stubs")
func verifStubC41Key(height int64) []byte {
	return binary.BigEndian.AppendUint64([]byte("validatorsKey:"), uint64(height))
}

var verifC41Objs []*ValidatorsInfo

func verifStubC41MustMarshal(o any) []byte {
	verifC41Objs = append(verifC41Objs, o.(*ValidatorsInfo))
	return []byte{byte(len(verifC41Objs))}
}

func verifStubC41Unmarshal(bz []byte, ptr any) error {
	*(ptr.(*ValidatorsInfo)) = *verifC41Objs[int(bz[0])-1]
	return nil
}

func VerifC41_ValidatorHistoryLookup() {
	h := verifNondetInt64("height")
	c := verifNondetInt64("lastHeightChanged")
	verifAssume(c >= 1)
	verifAssume(c <= h)
	verifAssume(h <= 1<<50)
	L := lastStoredHeightFor(h, c)
	verifAssert(L >= c && L <= h, "the looked-up height lies between the last change and the requested height")
	verifAssert(L == c || L%valSetCheckpointInterval == 0, "the looked-up height is the height of the last change or a checkpoint height")

	// what the store holds at the three heights involved, written by the real
	// saveValidatorsInfo with the set unchanged since height c
	verifC41Objs = nil
	db := &verifC41DB{}
	vs := &types.ValidatorSet{}
	saveValidatorsInfo(db, c, c, vs)
	if L != c {
		saveValidatorsInfo(db, L, c, vs)
	}
	if h != L && h != c {
		saveValidatorsInfo(db, h, c, vs)
	}
	at := loadValidatorsInfo(db, L)
	verifAssert(at != nil && at.ValidatorSet != nil && at.LastHeightChanged == c, "the looked-up height holds a full validator set recorded after the last change")
	req := loadValidatorsInfo(db, h)
	verifAssert(req != nil && req.LastHeightChanged == c, "the requested height records the last change")
	if h != c && h%valSetCheckpointInterval != 0 {
		verifAssert(req.ValidatorSet == nil, "intermediate heights store no set (only the pointer to the last change)")
	}
	p := verifPanics(func() { saveValidatorsInfo(db, c, h+1, vs) })
	verifAssert(p, "a last-change height above the saved height is refused")
	verifReach("end")
}
