package state

// Harness for C41 (block and state stores), validator-set history kernel:
// saveValidatorsInfo stores the full set only at the height of the last
// change and at checkpoint heights; LoadValidators must therefore look the
// set up at a height that (a) holds a full set and (b) is not older than the
// last change. Heights are SYMBOLIC.

import (
	"github.com/gnolang/gno/tm2/pkg/bft/types"
	"github.com/gnolang/gno/tm2/pkg/crypto/ed25519"
	dbm "github.com/gnolang/gno/tm2/pkg/db"
)

// ---- a map-backed DB (embedding the interface for the methods not used)
type verifC41DB struct {
	dbm.DB
	keys, vals [][]byte
}

func (d *verifC41DB) Get(k []byte) ([]byte, error) {
	for i := len(d.keys) - 1; i >= 0; i-- {
		if string(d.keys[i]) == string(k) {
			return d.vals[i], nil
		}
	}
	return nil, nil
}
func (d *verifC41DB) Set(k, v []byte) error {
	d.keys, d.vals = append(d.keys, k), append(d.vals, v)
	return nil
}

// ---- symbolic-run stand-ins (check config "func_stubs")
// keys: one byte naming the position of the height in a table of the heights
// seen so far (equal heights get equal keys, different heights different keys)
var verifC41Heights []int64

func verifStubC41Key(height int64) []byte {
	for i, x := range verifC41Heights {
		if x == height {
			return []byte{byte(i)}
		}
	}
	verifC41Heights = append(verifC41Heights, height)
	return []byte{byte(len(verifC41Heights) - 1)}
}

var verifC41Objs []*ValidatorsInfo

func verifStubC41MustMarshal(o any) []byte {
	verifC41Objs = append(verifC41Objs, o.(*ValidatorsInfo))
	return []byte{byte(len(verifC41Objs))}
}

func verifStubC41Unmarshal(bz []byte, ptr any) error {
	*(ptr.(*ValidatorsInfo)) = *verifC41Objs[int(bz[0])-1]
	return nil
}

func VerifC41_ValidatorHistoryLookup() {
	h := verifNondetInt64("height")
	c := verifNondetInt64("lastHeightChanged")
	verifAssume(c >= 1)
	verifAssume(c <= h)
	verifAssume(h <= 1<<50)
	L := lastStoredHeightFor(h, c)
	verifAssert(L >= c && L <= h, "the looked-up height lies between the last change and the requested height")
	verifAssert(L == c || L%valSetCheckpointInterval == 0, "the looked-up height is the height of the last change or a checkpoint height")

	// what the store holds at the three heights involved, written by the real
	// saveValidatorsInfo with the set unchanged since height c
	verifC41Objs, verifC41Heights = nil, nil
	db := &verifC41DB{}
	vs := &types.ValidatorSet{}
	saveValidatorsInfo(db, c, c, vs)
	if L != c {
		saveValidatorsInfo(db, L, c, vs)
	}
	if h != L && h != c {
		saveValidatorsInfo(db, h, c, vs)
	}
	at := loadValidatorsInfo(db, L)
	verifAssert(at != nil && at.ValidatorSet != nil && at.LastHeightChanged == c, "the looked-up height holds a full validator set recorded after the last change")
	req := loadValidatorsInfo(db, h)
	verifAssert(req != nil && req.LastHeightChanged == c, "the requested height records the last change")
	if h != c && h%valSetCheckpointInterval != 0 {
		verifAssert(req.ValidatorSet == nil, "intermediate heights store no set (only the pointer to the last change)")
	}
	p := verifPanics(func() { saveValidatorsInfo(db, c, h+1, vs) })
	verifAssert(p, "a last-change height above the saved height is refused")
	verifReach("end")
}

// ---- LoadValidators across checkpoints: the set returned for height h is
// the set in effect at h, i.e. the set of the last change advanced by h - c
// proposer-priority rounds.  The chain stores, at every checkpoint height k,
// the set as of k (advanced k - c rounds); LoadValidators reads the nearest
// stored set and must advance it by exactly the remaining rounds.
//
// IncrementProposerPriority loops `times` times, so in the symbolic run it is
// replaced (check config) by a stand-in that adds `times` to the first
// validator's priority: the priority then counts the rounds applied, and the
// same comparison works natively with the real function.
func verifStubC41Increment(vs *types.ValidatorSet, times int) {
	vs.Validators[0].ProposerPriority += int64(times)
}

func verifC41Set() *types.ValidatorSet {
	vs := &types.ValidatorSet{}
	for i, p := range []int64{1, 2, 3} {
		v := &types.Validator{VotingPower: p, PubKey: ed25519.PubKeyEd25519{byte(i + 1)}}
		v.Address[0] = byte(i + 1)
		vs.Validators = append(vs.Validators, v)
	}
	return vs
}

func VerifC41_LoadValidatorsAdvance() {
	h := verifNondetInt64("height")
	c := verifNondetInt64("lastHeightChanged")
	verifAssume(c >= 1 && c <= h)
	verifAssume(h <= 1<<40)
	verifAssume(h-c <= 250000) // at most three checkpoints between the change and the request
	verifC41Objs, verifC41Heights = nil, nil
	db := &verifC41DB{}
	base := verifC41Set()
	at := func(height int64) *types.ValidatorSet { // the set in effect at `height`
		s := base.Copy()
		if height > c {
			s.IncrementProposerPriority(int(height - c))
		}
		return s
	}
	saveValidatorsInfo(db, c, c, at(c))
	for k := c - c%valSetCheckpointInterval + valSetCheckpointInterval; k <= h; k += valSetCheckpointInterval {
		verifReach("a checkpoint lies between the last change and the requested height")
		saveValidatorsInfo(db, k, c, at(k))
	}
	if h != c && h%valSetCheckpointInterval != 0 {
		saveValidatorsInfo(db, h, c, at(h))
	}
	want := at(h)
	got, err := LoadValidators(db, h)
	verifAssert(err == nil && got != nil, "the validator set of a saved height loads")
	if err != nil || got == nil {
		return
	}
	same := len(got.Validators) == len(want.Validators)
	for i := 0; same && i < len(want.Validators); i++ {
		same = got.Validators[i].ProposerPriority == want.Validators[i].ProposerPriority &&
			got.Validators[i].VotingPower == want.Validators[i].VotingPower
	}
	verifAssert(same, "the loaded set is the set in effect at the requested height (priorities advanced by exactly the rounds since the stored set)")
	verifReach("end")
}
