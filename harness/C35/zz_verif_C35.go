package types

// Harness for C35 (vote sets track quorums exactly).
// Three validators with SYMBOLIC voting powers; a history of k steps, each a
// vote (valid, duplicate, conflicting, wrong step, bad signature, unknown
// validator, wrong address) or a peer majority claim, is a structural choice.
// After every step the vote set is compared with a reference tally written
// from the documented rules (vote_set.go head comment and the statement).

import (
	"bytes"
	"encoding/binary"

	"github.com/gnolang/gno/tm2/pkg/crypto"
)

type verifC35Key struct{ id byte }

func verifC35Addr(id byte) (a crypto.Address) { a[0] = id + 1; return }

func (k verifC35Key) Address() crypto.Address { return verifC35Addr(k.id) }
func (k verifC35Key) Bytes() []byte            { return []byte{k.id} }
func (k verifC35Key) Equals(o crypto.PubKey) bool {
	ok, same := o.(verifC35Key)
	return same && ok.id == k.id
}
func (k verifC35Key) String() string { return "verifkey" }
func (k verifC35Key) VerifyBytes(msg []byte, sig []byte) bool {
	return len(sig) == len(msg)+1 && sig[0] == k.id && bytes.Equal(sig[1:], msg)
}

// Stand-ins used in the symbolic run only (check config "func_stubs").
func verifStubC35SignBytes(vote *Vote, chainID string) []byte {
	bz := []byte{byte(vote.Type)}
	bz = binary.BigEndian.AppendUint64(bz, uint64(vote.Height))
	bz = binary.BigEndian.AppendUint64(bz, uint64(vote.Round))
	bz = append(bz, byte(len(vote.BlockID.Hash)))
	bz = append(bz, vote.BlockID.Hash...)
	bz = binary.BigEndian.AppendUint64(bz, uint64(vote.BlockID.PartsHeader.Total))
	bz = append(bz, byte(len(vote.BlockID.PartsHeader.Hash)))
	bz = append(bz, vote.BlockID.PartsHeader.Hash...)
	bz = append(bz, chainID...)
	return bz
}

func verifStubC35BlockKey(b BlockID) string {
	return string(b.Hash) + "|" + string([]byte{byte(b.PartsHeader.Total)}) + string(b.PartsHeader.Hash)
}

const (
	verifC35N      = 3
	verifC35Blocks = 3 // A, B, nil
)

func verifC35Block(b int) BlockID {
	switch b {
	case 0:
		return BlockID{Hash: []byte{0xA}, PartsHeader: PartSetHeader{Total: 1, Hash: []byte{1}}}
	case 1:
		return BlockID{Hash: []byte{0xB}, PartsHeader: PartSetHeader{Total: 1, Hash: []byte{2}}}
	}
	return BlockID{}
}

func verifC35BlockOf(id BlockID) int {
	for b := 0; b < verifC35Blocks; b++ {
		if id.Equals(verifC35Block(b)) {
			return b
		}
	}
	return -2
}

func verifC35Vote(v, b int) *Vote {
	vote := &Vote{Type: PrecommitType, Height: 1, Round: 0, BlockID: verifC35Block(b),
		ValidatorAddress: verifC35Addr(byte(v)), ValidatorIndex: v}
	vote.Signature = append([]byte{byte(v)}, vote.SignBytes("chain")...)
	return vote
}

type verifC35Model struct {
	power   [verifC35N]int64
	total   int64
	prim    [verifC35N]int                  // block of the first accepted vote, -1 none
	shown   [verifC35N]int                  // block of the canonical vote in .votes, -1 none
	cnt     [verifC35Blocks][verifC35N]bool // votes counted for a block
	claimed [verifC35Blocks]bool
	tracked [verifC35Blocks]bool
	peer    [2]int // block claimed by peer, -1 none
	any     int64
	maj     int
}

func (m *verifC35Model) sumFor(b int) (s int64) {
	for v := 0; v < verifC35N; v++ {
		if m.cnt[b][v] {
			s += m.power[v]
		}
	}
	return
}

func (m *verifC35Model) count(v, b int) {
	m.cnt[b][v] = true
	if m.maj == -1 && 3*m.sumFor(b) > 2*m.total {
		m.maj = b
		for w := 0; w < verifC35N; w++ {
			if m.cnt[b][w] {
				m.shown[w] = b
			}
		}
	}
}

// observe compares every query method of the vote set with the model.
func verifC35Observe(vs *VoteSet, m *verifC35Model) {
	id, ok := vs.TwoThirdsMajority()
	verifAssert(ok == (m.maj != -1), "a +2/3 majority is reported exactly when the votes counted for some block exceeded two thirds of the total power")
	if ok && m.maj != -1 {
		verifAssert(id.Equals(verifC35Block(m.maj)), "the majority reported is the first block that reached +2/3 and never changes")
	}
	verifAssert(vs.HasTwoThirdsMajority() == ok && vs.IsCommit() == ok, "HasTwoThirdsMajority/IsCommit agree with TwoThirdsMajority")
	verifAssert(vs.HasTwoThirdsAny() == (3*m.any > 2*m.total), "'any +2/3' is reported exactly when the power of distinct validators seen exceeds two thirds")
	verifAssert(vs.HasAll() == (m.any == m.total), "HasAll <=> every validator was seen")
	ba := vs.BitArray()
	for v := 0; v < verifC35N; v++ {
		verifAssert(ba.GetIndex(v) == (m.prim[v] != -1), "bit array marks exactly the validators seen")
		got := vs.GetByIndex(v)
		verifAssert((got != nil) == (m.shown[v] != -1), "canonical vote present exactly for validators seen")
		if got != nil && m.shown[v] != -1 {
			verifAssert(got.ValidatorIndex == v && verifC35BlockOf(got.BlockID) == m.shown[v], "canonical vote: first vote seen, or the vote for the +2/3 block")
		}
	}
	for b := 0; b < verifC35Blocks; b++ {
		bb := vs.BitArrayByBlockID(verifC35Block(b))
		verifAssert((bb != nil) == m.tracked[b], "a block is tracked once voted for first or claimed by a peer")
		if bb != nil {
			for v := 0; v < verifC35N; v++ {
				verifAssert(bb.GetIndex(v) == m.cnt[b][v], "per-block bit array marks exactly the votes counted for the block")
			}
		}
	}
}

func verifC35Steps() int {
	if verifThorough() {
		return 4
	}
	return 3
}

func VerifC35_History() {
	m := &verifC35Model{maj: -1, peer: [2]int{-1, -1}}
	vals := &ValidatorSet{}
	for v := 0; v < verifC35N; v++ {
		p := verifNondetInt64("power")
		verifAssume(p >= 1 && p <= MaxTotalVotingPower)
		m.power[v] = p
		m.total += p
		verifAssume(m.total <= MaxTotalVotingPower)
		m.prim[v], m.shown[v] = -1, -1
		vals.Validators = append(vals.Validators, NewValidator(verifC35Key{byte(v)}, p))
	}
	vs := NewVoteSet("chain", 1, 0, PrecommitType, vals)
	verifC35Observe(vs, m)

	// quick: every 3-step history over all 19 step kinds, and every 4-step
	// history over a reduced alphabet (validators 0 and 1 voting for A or B,
	// peer 0 claiming A or B); thorough: every 4-step history over all kinds
	steps, reduced := verifC35Steps(), false
	if !verifThorough() && verifChoose("alphabet", 2) == 1 {
		steps, reduced = 4, true
	}
	for s, n := 0, steps; s < n; s++ {
		kind := 0
		if reduced {
			kind = []int{0, 1, 3, 4, 17, 18}[verifChoose("step", 6)]
		} else {
			kind = verifChoose("step", 19)
		}
		switch {
		case kind < 9: // a well-formed, correctly signed vote
			v, b := kind/3, kind%3
			added, err := vs.AddVote(verifC35Vote(v, b))
			switch {
			case m.shown[v] == b || m.cnt[b][v]:
				verifAssert(!added && err == nil, "a duplicate vote is not added and is no error")
			case m.prim[v] == -1:
				verifAssert(added && err == nil, "the first vote of a validator is added")
				m.prim[v], m.shown[v] = b, b
				m.any += m.power[v]
				m.tracked[b] = true
				m.count(v, b)
			default:
				_, isConflict := err.(*VoteConflictingVotesError)
				verifAssert(err != nil && isConflict, "a conflicting vote is reported as such")
				tracked := m.tracked[b] && m.claimed[b]
				verifAssert(added == tracked, "a conflicting vote is counted exactly when a peer claimed +2/3 for its block")
				if m.maj == b {
					m.shown[v] = b // votes for the +2/3 block get priority in the canonical list
				}
				if tracked {
					m.count(v, b)
				}
			}
		case kind < 15: // malformed or wrongly signed votes: never added, nothing changes
			v := kind % 3
			vote := verifC35Vote(v, 0)
			switch kind {
			case 9:
				vote.Signature = append([]byte(nil), vote.Signature...)
				vote.Signature[len(vote.Signature)-1] ^= 1
			case 10:
				vote.Signature = verifC35Vote((v+1)%3, 0).Signature // signed by another validator
			case 11:
				vote.Height = 2
				vote.Signature = append([]byte{byte(v)}, vote.SignBytes("chain")...)
			case 12:
				vote.Round = 1
				vote.Signature = append([]byte{byte(v)}, vote.SignBytes("chain")...)
			case 13:
				vote.Type = PrevoteType
				vote.Signature = append([]byte{byte(v)}, vote.SignBytes("chain")...)
			case 14:
				vote.ValidatorAddress = verifC35Addr(byte((v + 1) % 3))
			}
			added, err := vs.AddVote(vote)
			verifAssert(!added && err != nil, "a malformed or wrongly signed vote is rejected with an error")
		case kind == 15 || kind == 16: // validator index outside the set
			vote := verifC35Vote(0, 0)
			vote.ValidatorIndex = []int{-1, verifC35N}[kind-15]
			added, err := vs.AddVote(vote)
			verifAssert(!added && err != nil, "a vote from an unknown validator index is rejected with an error")
		default: // peer majority claim: peer 0 claims A (17) or B (18); a second, different claim of the same peer is refused
			b := kind - 17
			peerIdx := 0
			if !reduced && verifChoose("peer", 2) == 1 {
				peerIdx = 1
			}
			err := vs.SetPeerMaj23(P2PID([]string{"p0", "p1"}[peerIdx]), verifC35Block(b))
			switch {
			case m.peer[peerIdx] == -1:
				verifAssert(err == nil, "a peer's first claim is accepted")
				m.peer[peerIdx] = b
				m.claimed[b], m.tracked[b] = true, true
			case m.peer[peerIdx] == b:
				verifAssert(err == nil, "repeating a claim is a no-op")
			default:
				verifAssert(err != nil, "a peer's second, different claim is refused")
			}
		}
		verifC35Observe(vs, m)
	}

	if m.maj != -1 {
		var commit *Commit
		p := verifPanics(func() { commit = vs.MakeCommit() })
		verifAssert(!p, "MakeCommit succeeds once there is a +2/3 majority")
		if !p {
			verifAssert(commit.BlockID.Equals(verifC35Block(m.maj)), "the commit is for the majority block")
			forMaj, onlyMaj := int64(0), true
			for v, cs := range commit.Precommits {
				verifAssert((cs != nil) == (m.shown[v] != -1), "the commit has one entry per validator seen")
				if cs == nil {
					continue
				}
				if verifC35BlockOf(cs.BlockID) == m.maj {
					forMaj += m.power[v]
				} else {
					onlyMaj = false
				}
			}
			verifAssert(3*forMaj > 2*m.total, "the commit's entries for the majority block carry more than two thirds of the power")
			verifAssert(m.maj == 2 || vals.VerifyCommit("chain", verifC35Block(m.maj), 1, commit) == nil, "the commit passes VerifyCommit")
			verifAssert(onlyMaj, "the resulting commit contains only votes for the majority block")
		}
	} else {
		verifAssert(verifPanics(func() { vs.MakeCommit() }), "MakeCommit refuses without a +2/3 majority")
	}
	verifReach("end")
}
