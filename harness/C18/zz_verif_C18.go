package std

// Harness for C18 (coin-set arithmetic matches the multiset model).
// Operand shapes (which denominations are present) are enumerated structurally
// over a small sorted alphabet; every amount is a symbolic int64.

import "math/big"

var verifC18Denoms = [...]string{"aaa", "bbb", "ccc", "ddd"}

func verifC18N() int {
	if verifThorough() {
		return 4
	}
	return 3
}

type verifC18Model struct {
	present [4]bool
	amt     [4]int64
}

func verifC18Set(name string, n int) (Coins, verifC18Model) {
	var m verifC18Model
	mask := verifChoose(name+".mask", 1<<n)
	var cs Coins
	if verifChoose(name+".nil", 2) == 1 && mask == 0 {
		cs = Coins{}
	}
	for k := 0; k < n; k++ {
		if mask&(1<<k) != 0 {
			a := verifNondetInt64(name + "." + verifC18Denoms[k])
			m.present[k], m.amt[k] = true, a
			cs = append(cs, Coin{Denom: verifC18Denoms[k], Amount: a})
		}
	}
	return cs, m
}

func verifC18Same(x, y Coins) bool {
	if len(x) != len(y) {
		return false
	}
	for i := range x {
		if x[i].Denom != y[i].Denom || x[i].Amount != y[i].Amount {
			return false
		}
	}
	return true
}

// verifC18Expect computes the per-denomination sum (sign=+1) or difference
// (sign=-1): the expected sorted zero-free result, whether some amount is not
// representable, and whether the result is a valid coin set (all positive).
func verifC18Expect(a, b verifC18Model, n int, sub bool) (want Coins, overflow bool, valid bool) {
	valid = true
	for k := 0; k < n; k++ {
		if !a.present[k] && !b.present[k] {
			continue
		}
		v := new(big.Int)
		if a.present[k] {
			v.SetInt64(a.amt[k])
		}
		if b.present[k] {
			if sub {
				v.Sub(v, big.NewInt(b.amt[k]))
			} else {
				v.Add(v, big.NewInt(b.amt[k]))
			}
		}
		if !v.IsInt64() {
			overflow = true
			continue
		}
		x := v.Int64()
		if x != 0 {
			want = append(want, Coin{Denom: verifC18Denoms[k], Amount: x})
			if x < 0 {
				valid = false
			}
		}
	}
	return
}

func verifC18Arith(sub bool, checked bool) {
	n := verifC18N()
	if sub {
		n = 3 // subtraction over 4 denominations exceeds the path budget; both tiers use 3
	}
	A, ma := verifC18Set("A", n)
	B, mb := verifC18Set("B", n)
	A0 := append(Coins(nil), A...)
	B0 := append(Coins(nil), B...)
	want, overflow, valid := verifC18Expect(ma, mb, n, sub)

	var got Coins
	panicked := verifPanics(func() {
		switch {
		case sub && checked:
			got = A.Sub(B)
		case sub:
			got = A.SubUnsafe(B)
		case checked:
			got = A.Add(B)
		default:
			got = A.AddUnsafe(B)
		}
	})
	minInB := false
	for k := 0; k < n; k++ {
		if mb.present[k] && mb.amt[k] == -9223372036854775808 {
			minInB = true
		}
	}
	expectPanic := overflow || (checked && !valid)
	if sub && minInB {
		// classes involving -MinInt64 in the subtrahend are kept apart (known finding)
		verifAssert(panicked == expectPanic, "Sub with MinInt64 in the subtrahend: panics exactly on overflow/invalid result")
		if !panicked && !expectPanic {
			verifAssert(verifC18Same(got, want), "Sub with MinInt64 in the subtrahend: result is the per-denomination difference")
		}
	} else {
		verifAssert(panicked == expectPanic, "panics exactly when an amount overflows (or, checked variants, the result is invalid)")
		if !panicked && !expectPanic {
			verifAssert(verifC18Same(got, want), "result is the sorted zero-free per-denomination sum/difference")
		}
	}
	verifAssert(verifC18Same(A, A0), "first operand unchanged")
	verifAssert(verifC18Same(B, B0), "second operand unchanged")
	verifReach("end")
}

func VerifC18_AddUnsafe() { verifC18Arith(false, false) }
func VerifC18_Add()       { verifC18Arith(false, true) }
func VerifC18_SubUnsafe() { verifC18Arith(true, false) }
func VerifC18_Sub()       { verifC18Arith(true, true) }

// ---- comparison helpers on valid sets (sorted, positive amounts)

func verifC18ValidSet(name string, n int) (Coins, verifC18Model) {
	cs, m := verifC18Set(name, n)
	for k := 0; k < n; k++ {
		if m.present[k] {
			verifAssume(m.amt[k] > 0)
		}
	}
	return cs, m
}

func VerifC18_Compare() {
	n := 3
	A, ma := verifC18ValidSet("A", n)
	B, mb := verifC18ValidSet("B", n)
	verifAssert(A.IsValid() && B.IsValid(), "generated sets are valid")
	allGT, allGTE, anyGT, anyGTE, equal := true, true, false, false, len(A) == len(B)
	for k := 0; k < n; k++ {
		if mb.present[k] {
			if !ma.present[k] || ma.amt[k] <= mb.amt[k] {
				allGT = false
			}
			if !ma.present[k] || ma.amt[k] < mb.amt[k] {
				allGTE = false
			}
		}
		if ma.present[k] && mb.present[k] {
			if ma.amt[k] > mb.amt[k] {
				anyGT = true
			}
			if ma.amt[k] >= mb.amt[k] {
				anyGTE = true
			}
		}
		if ma.present[k] != mb.present[k] || (ma.present[k] && ma.amt[k] != mb.amt[k]) {
			equal = false
		}
	}
	if len(A) == 0 {
		allGT = false
	} else if len(B) == 0 {
		allGT = true
	}
	if len(B) == 0 {
		allGTE = true
	} else if len(A) == 0 {
		allGTE = false
	}
	verifAssert(A.IsAllGT(B) == allGT, "IsAllGT agrees with per-denomination comparison")
	verifAssert(A.IsAllGTE(B) == allGTE, "IsAllGTE agrees with per-denomination comparison")
	verifAssert(B.IsAllLT(A) == allGT, "IsAllLT is IsAllGT with operands swapped")
	verifAssert(B.IsAllLTE(A) == allGTE, "IsAllLTE is IsAllGTE with operands swapped")
	verifAssert(A.IsAnyGT(B) == anyGT, "IsAnyGT agrees with per-denomination comparison")
	verifAssert(A.IsAnyGTE(B) == anyGTE, "IsAnyGTE agrees with per-denomination comparison")
	var isEq bool
	eqPanicked := verifPanics(func() { isEq = A.IsEqual(B) })
	verifAssert(!eqPanicked, "IsEqual does not panic on two valid sets of equal length")
	if !eqPanicked {
		verifAssert(isEq == equal, "IsEqual agrees with per-denomination comparison")
	}
	verifAssert(A.IsZero() == (len(A) == 0), "IsZero of a valid set")
	for k := 0; k < n; k++ {
		want := int64(0)
		if ma.present[k] {
			want = ma.amt[k]
		}
		verifAssert(A.AmountOf(verifC18Denoms[k]) == want, "AmountOf returns the amount of the denomination or zero")
	}
	verifReach("end")
}
