package auth

// Harness for C15 (only correctly signed, fresh transactions take effect): the
// real ante handler (NewAnteHandler and everything below it: signature count,
// ValidateBasic, signer account lookup through the real AccountKeeper, public
// key binding, sign-bytes construction call, verification, sequence
// increment) over an in-memory store, in deliver mode at height 1, with a
// zero fee.  One or two signers whose account numbers and sequences are
// SYMBOLIC; each signature is made over symbolic (account number, sequence),
// over the right or a wrong chain id, with the signer's or another key, and
// carries the public key or not.
//
// Signatures are ideal (symbolic run): sign(key, msg) = key-id || msg and
// verification compares; natively the real ed25519 code signs and verifies.

import (
	"bytes"
	"encoding/binary"
	"time"

	abci "github.com/gnolang/gno/tm2/pkg/bft/abci/types"
	"github.com/gnolang/gno/tm2/pkg/crypto"
	"github.com/gnolang/gno/tm2/pkg/crypto/ed25519"
	"github.com/gnolang/gno/tm2/pkg/sdk"
	"github.com/gnolang/gno/tm2/pkg/sdk/params"
	"github.com/gnolang/gno/tm2/pkg/sdk/testutils"
	"github.com/gnolang/gno/tm2/pkg/std"
	store "github.com/gnolang/gno/tm2/pkg/store/types"
)

const verifC15Chain = "chain-a"

type verifC15Header struct{}

func (verifC15Header) GetChainID() string { return verifC15Chain }
func (verifC15Header) GetHeight() int64   { return 1 }
func (verifC15Header) GetTime() time.Time { return time.Time{} }
func (verifC15Header) AssertABCIHeader()  {}

type verifC15KV struct{ keys, vals [][]byte }

func (s *verifC15KV) find(k []byte) int {
	for i := range s.keys {
		if bytes.Equal(s.keys[i], k) {
			return i
		}
	}
	return -1
}
func (s *verifC15KV) Get(_ *store.GasContext, k []byte) []byte {
	if i := s.find(k); i >= 0 {
		return s.vals[i]
	}
	return nil
}
func (s *verifC15KV) Has(_ *store.GasContext, k []byte) bool { return s.find(k) >= 0 }
func (s *verifC15KV) Set(_ *store.GasContext, k, v []byte) {
	if i := s.find(k); i >= 0 {
		s.vals[i] = v
		return
	}
	s.keys = append(s.keys, append([]byte(nil), k...))
	s.vals = append(s.vals, v)
}
func (s *verifC15KV) Delete(_ *store.GasContext, k []byte) {
	if i := s.find(k); i >= 0 {
		s.keys = append(s.keys[:i:i], s.keys[i+1:]...)
		s.vals = append(s.vals[:i:i], s.vals[i+1:]...)
	}
}
func (s *verifC15KV) Iterator(*store.GasContext, []byte, []byte) store.Iterator {
	panic("not used")
}
func (s *verifC15KV) ReverseIterator(*store.GasContext, []byte, []byte) store.Iterator {
	panic("not used")
}
func (s *verifC15KV) CacheWrap() store.Store { panic("not used") }
func (s *verifC15KV) Write()                 {}

type verifC15MS struct {
	store.MultiStore
	kv *verifC15KV
}

func (ms verifC15MS) GetStore(store.StoreKey) store.Store { return ms.kv }

type verifC15Params struct{ params.ParamsKeeperI }

func (verifC15Params) GetStruct(ctx sdk.Context, key string, ptr any) {}

type verifC15Bank struct{}

func (verifC15Bank) GetCoin(sdk.Context, crypto.Address, string) int64 { return 0 }
func (verifC15Bank) SendCoins(sdk.Context, crypto.Address, crypto.Address, std.Coins) error {
	panic("not used: zero fee")
}
func (verifC15Bank) SendCoinsUnrestricted(sdk.Context, crypto.Address, crypto.Address, std.Coins) error {
	panic("not used: zero fee")
}

// ---- symbolic-run stand-ins (check config "func_stubs")

// amino: an encoded value is the index of a private copy of the object
var verifC15Objs []any

func verifC15Put(o any) []byte {
	if v, ok := o.(*std.BaseAccount); ok {
		c := *v
		o = &c
	}
	verifC15Objs = append(verifC15Objs, o)
	return []byte{byte(len(verifC15Objs))}
}
func verifStubC15MarshalAny(o any) ([]byte, error) { return verifC15Put(o), nil }
func verifStubC15MustMarshal(o any) []byte         { return verifC15Put(o) }
func verifStubC15Unmarshal(bz []byte, ptr any) error {
	o := verifC15Objs[int(bz[0])-1]
	switch p := ptr.(type) {
	case *std.Account:
		c := *(o.(*std.BaseAccount))
		*p = &c
	case *uint64:
		*p = o.(uint64)
	default:
		panic("verif: unexpected decode target")
	}
	return nil
}

// sign bytes: an injective function of chain id, account number and sequence
// (fee, messages and memo are the same for every signature of the scenario)
func verifStubC15SignPayload(s std.SignDoc) ([]byte, error) {
	b := []byte(s.ChainID)
	b = append(b, '|')
	b = binary.BigEndian.AppendUint64(b, s.AccountNumber)
	b = binary.BigEndian.AppendUint64(b, s.Sequence)
	return b, nil
}

// ideal ed25519: the key pair with secret byte k has public key {k, 0xED, 0...};
// a signature is k || message
func verifStubC15GenPriv(secret []byte) ed25519.PrivKeyEd25519 {
	var p ed25519.PrivKeyEd25519
	p[0] = secret[0]
	return p
}
func verifStubC15Pub(p ed25519.PrivKeyEd25519) crypto.PubKey {
	var k ed25519.PubKeyEd25519
	k[0], k[1] = p[0], 0xED
	return k
}
func verifStubC15Sign(p ed25519.PrivKeyEd25519, msg []byte) ([]byte, error) {
	return append([]byte{p[0]}, msg...), nil
}
func verifStubC15Verify(k ed25519.PubKeyEd25519, msg, sig []byte) bool {
	return len(sig) == 1+len(msg) && sig[0] == k[0] && bytes.Equal(sig[1:], msg)
}
func verifStubC15PubBytes(k ed25519.PubKeyEd25519) []byte { return append([]byte(nil), k[:]...) }
func verifStubC15PubAddress(k ed25519.PubKeyEd25519) crypto.Address {
	var a crypto.Address
	a[0], a[1] = k[0], 0xAD
	return a
}

func verifC15GasConsumer(meter store.GasMeter, sig []byte, pubkey crypto.PubKey, params Params) sdk.Result {
	return sdk.Result{}
}

func VerifC15_Ante() {
	verifC15Objs = nil
	key := store.NewStoreKey("main")
	prm := verifC15Params{}
	ak := NewAccountKeeper(key, prm, std.ProtoBaseAccount, std.ProtoBaseSessionAccount)
	ctx := sdk.NewContext(sdk.RunTxModeDeliver, verifC15MS{kv: &verifC15KV{}}, verifC15Header{}, nil).
		WithConsensusParams(&abci.ConsensusParams{Block: &abci.BlockParams{MaxGas: -1}}).
		WithValue(AuthParamsContextKey{}, Params{MaxMemoBytes: 256, TxSigLimit: 7, TxSizeCostPerByte: 1})
	handler := NewAnteHandler(ak, verifC15Bank{}, verifC15GasConsumer, AnteOptions{})

	n := 1 + verifChoose("signers", 2)
	privs := []ed25519.PrivKeyEd25519{ed25519.GenPrivKeyFromSecret([]byte{1}), ed25519.GenPrivKeyFromSecret([]byte{2})}
	other := ed25519.GenPrivKeyFromSecret([]byte{9})
	var addrs []crypto.Address
	var accNum, seq [2]uint64
	var hadKey [2]bool
	for i := 0; i < n; i++ {
		pub := privs[i].PubKey()
		addr := pub.Address()
		addrs = append(addrs, addr)
		accNum[i] = verifNondetUint64("accnum")
		seq[i] = verifNondetUint64("seq")
		acc := &std.BaseAccount{Address: addr, AccountNumber: accNum[i], Sequence: seq[i]}
		if verifChoose("account has key", 2) == 1 {
			acc.PubKey = pub
			hadKey[i] = true
		}
		ak.SetAccount(ctx, acc)
	}
	if n == 2 {
		verifAssume(accNum[0] != accNum[1]) // account numbers are unique
	}

	msg := testutils.NewTestMsg(addrs...)
	fee := std.NewFee(verifNondetInt64("gaswanted"), std.NewCoin("ugnot", 0))
	verifAssume(fee.GasWanted >= 0 && fee.GasWanted <= 1<<40)
	unsigned := std.Tx{Msgs: []std.Msg{msg}, Fee: fee, Memo: "m"}
	allRight := true
	var sigs []std.Signature
	for i := 0; i < n; i++ {
		chain := verifC15Chain
		if verifChoose("sig chain", 2) == 1 {
			chain = "chain-b"
			allRight = false
		}
		sAcc, sSeq := verifNondetUint64("sig accnum"), verifNondetUint64("sig seq")
		signer := privs[i]
		switch verifChoose("sig key", 3) {
		case 1:
			signer = other
			allRight = false
		case 2:
			signer = privs[1-i] // the co-signer's key (a key of another account)
			allRight = false
		}
		if sAcc != accNum[i] || sSeq != seq[i] {
			allRight = false
		}
		sb, err := unsigned.GetSignBytes(chain, sAcc, sSeq)
		verifAssume(err == nil)
		sg, err := signer.Sign(sb)
		verifAssume(err == nil)
		s := std.Signature{Signature: sg}
		if verifChoose("sig carries key", 2) == 1 {
			s.PubKey = signer.PubKey()
		} else if !hadKey[i] {
			allRight = false // a first transaction must carry the key: there is none to verify against
		}
		sigs = append(sigs, s)
	}
	tx := unsigned
	tx.Signatures = sigs

	newCtx, res, abort := handler(ctx, tx, false)
	if abort {
		verifReach("rejected")
		verifAssert(!res.IsOK(), "a rejected transaction carries an error")
		verifAssert(!allRight, "a transaction signed by every signer's own key over the chain id, its account number and its current sequence is accepted")
		return
	}
	verifReach("accepted")
	verifAssert(allRight, "an accepted transaction was signed by every signer's own key over the chain id, the signer's account number and its current sequence")
	for i := 0; i < n; i++ {
		acc := ak.GetAccount(newCtx, addrs[i])
		verifAssert(acc != nil && acc.GetSequence() == seq[i]+1, "an accepted transaction advances each signer's sequence by exactly one")
		verifAssert(acc != nil && acc.GetAccountNumber() == accNum[i] && acc.GetAddress() == addrs[i], "an accepted transaction leaves account number and address alone")
		verifAssert(acc != nil && acc.GetPubKey() != nil && bytes.Equal(acc.GetPubKey().Bytes(), privs[i].PubKey().Bytes()), "after an accepted transaction the account is bound to the signer's own key")
	}
	// the same signed transaction a second time
	_, _, abort2 := handler(newCtx, tx, false)
	verifAssert(abort2, "the same signed transaction is rejected when submitted again")
	verifReach("end")
}
