package multisig

// Harness for C44 (multisig verification is exact and never panics).
// The decoded Multisignature is an arbitrary structure: the bit array may be
// nil or carry any ExtraBitsStored byte and 0..2 arbitrary element bytes, and
// the signature list has 0..n entries. Sub-key verification answers are
// arbitrary booleans per (key, signature).

import (
	"github.com/gnolang/gno/tm2/pkg/amino"
	"github.com/gnolang/gno/tm2/pkg/crypto"
	"github.com/gnolang/gno/tm2/pkg/crypto/multisig/bitarray"
)

type verifC44Key struct {
	id    int
	valid *[10][10]bool
}

func (k verifC44Key) Address() crypto.Address { return crypto.Address{} }
func (k verifC44Key) Bytes() []byte            { return []byte{byte(k.id)} }
func (k verifC44Key) Equals(o crypto.PubKey) bool {
	ok, same := o.(verifC44Key)
	return same && ok.id == k.id
}
func (k verifC44Key) String() string { return "verifkey" }
func (k verifC44Key) VerifyBytes(msg []byte, sig []byte) bool {
	if len(sig) != 1 || int(sig[0]) >= 10 {
		return false
	}
	return k.valid[k.id][sig[0]]
}

// In the symbolic run amino.MustMarshal / amino.Unmarshal are replaced by these
// two stand-ins (check config "func_stubs"): decoding returns the structure
// that was encoded. Natively the real codec runs.
var verifC44Pending *Multisignature

func verifStubC44MustMarshal(o any) []byte {
	verifC44Pending = o.(*Multisignature)
	return []byte{0x01}
}

func verifStubC44Unmarshal(bz []byte, ptr any) error {
	dst := ptr.(*Multisignature)
	*dst = *verifC44Pending
	return nil
}

func verifC44Run(n int, maxK int, maxSigs int) {
	k := 1 + verifChoose("k", maxK)
	valid := new([10][10]bool)
	keys := make([]crypto.PubKey, n)
	for i := 0; i < n; i++ {
		keys[i] = verifC44Key{id: i, valid: valid}
	}
	pk := PubKeyMultisigThreshold{K: uint(k), PubKeys: keys}

	ms := &Multisignature{}
	nElems := 0
	extra := byte(0)
	var elems []byte
	if verifChoose("bitarray.nil", 2) == 0 {
		maxElems := (n+7)/8 + 1
		nElems = verifChoose("bitarray.elems", maxElems+1)
		extra = verifNondetUint8("bitarray.extra")
		elems = verifBytes("bitarray.elem", nElems)
		ms.BitArray = &bitarray.CompactBitArray{ExtraBitsStored: extra, Elems: elems}
	}
	nSigs := verifChoose("sigs", maxSigs+1)
	for j := 0; j < nSigs; j++ {
		ms.Sigs = append(ms.Sigs, []byte{byte(j)})
		for i := 0; i < n; i++ {
			valid[i][j] = verifNondetBool("valid")
		}
	}
	// the codec is trusted to round-trip these shapes; shapes it normalises
	// differently (non-nil bit array that encodes as empty) are left out
	verifAssume(ms.BitArray == nil || nElems > 0 || extra != 0)

	bz := amino.MustMarshal(ms)
	var got bool
	panicked := verifPanics(func() { got = pk.VerifyBytes([]byte("msg"), bz) })

	// ---- the specification, from the statement
	wellFormed := ms.BitArray != nil && nElems > 0 && extra <= 7
	size := 0
	if wellFormed {
		if extra == 0 {
			size = nElems * 8
		} else {
			size = (nElems-1)*8 + int(extra)
		}
	}
	marked := 0
	allValid := true
	if wellFormed && size == n {
		for i := 0; i < n; i++ {
			if elems[i/8]&(0x80>>(uint(i)%8)) != 0 {
				if marked < nSigs {
					if !valid[i][marked] {
						allValid = false
					}
				}
				marked++
			}
		}
	}
	switch {
	case !wellFormed:
		// the statement only demands that malformed input does not panic
		verifAssert(!panicked, "never panics: malformed bit array (nil elements or ExtraBitsStored > 7)")
	case size == n && marked > nSigs:
		verifAssert(!panicked, "never panics: more positions marked than signatures supplied")
		if !panicked {
			verifAssert(!got, "rejects when a marked position has no signature")
		}
	default:
		verifAssert(!panicked, "never panics: well-formed multisignature")
		if !panicked {
			want := size == n && marked >= k && nSigs >= k && allValid
			verifAssert(got == want, "accepts exactly when size = n, at least k positions are marked and every marked position's signature verifies")
		}
	}
	verifReach("end")
}

func VerifC44_Verify_n1() { verifC44Run(1, 1, 1) }
func VerifC44_Verify_n2() { verifC44Run(2, 2, 2) }
func VerifC44_Verify_n3() { verifC44Run(3, 3, 3) }

// nine keys: the bit array spans two bytes; thresholds 1..2, at most 2 signatures
func VerifC44_Verify_n9() { verifC44Run(9, 2, 2) }

// AddSignature keeps bit array and signature list consistent.
func VerifC44_AddSignature() {
	n := 3
	ms := NewMultisig(n)
	steps := 2
	if verifThorough() {
		steps = 3
	}
	var model [3]int // signature id per position, -1 = none
	for i := range model {
		model[i] = -1
	}
	for s := 0; s < steps; s++ {
		idx := verifChoose("index", n)
		ms.AddSignature([]byte{byte(10 + s)}, idx)
		model[idx] = 10 + s
		pos := 0
		for i := 0; i < n; i++ {
			verifAssert(ms.BitArray.GetIndex(i) == (model[i] >= 0), "bit marked exactly for signed positions")
			if model[i] >= 0 {
				verifAssert(pos < len(ms.Sigs) && int(ms.Sigs[pos][0]) == model[i], "signatures stored in position order")
				pos++
			}
		}
		verifAssert(pos == len(ms.Sigs), "no stray signatures")
	}
	verifReach("end")
}
