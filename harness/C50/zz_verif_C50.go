package avl

// Harness for C50 (the Gno avl tree is a correct ordered map). node.gno and
// tree.gno import nothing and are valid Go: the check presents the
// repository's own files to the Go tool chain as a Go package (overlay, no
// copy is kept) and executes them symbolically. Keys are SYMBOLIC one-byte
// strings, so every relative order and coincidence of keys is covered.
// Assumption: the GnoVM runs this source with Go semantics (that is C04).

type verifC50Model struct {
	keys []string
	vals []int // -1: removed
}

func (m *verifC50Model) put(k string, v int) { m.keys, m.vals = append(m.keys, k), append(m.vals, v) }
func (m *verifC50Model) get(k string) int {
	for i := len(m.keys) - 1; i >= 0; i-- {
		if m.keys[i] == k {
			return m.vals[i]
		}
	}
	return -1
}

// live returns the live keys in ascending order
func (m *verifC50Model) live() (ks []string) {
	for i := range m.keys {
		k := m.keys[i]
		if m.get(k) < 0 {
			continue
		}
		dup := false
		for _, o := range ks {
			if o == k {
				dup = true
			}
		}
		if dup {
			continue
		}
		pos := len(ks)
		for j := range ks {
			if k < ks[j] {
				pos = j
				break
			}
		}
		ks = append(ks[:pos], append([]string{k}, ks[pos:]...)...)
	}
	return
}

// shape checks the AVL invariants of the subtree and returns (height, size)
func verifC50Shape(n *Node) (int, int) {
	if n == nil {
		return -1, 0
	}
	if n.leftNode == nil && n.rightNode == nil {
		verifAssert(n.height == 0 && n.size == 1, "a leaf has height 0 and size 1")
		return 0, 1
	}
	verifAssert(n.leftNode != nil && n.rightNode != nil, "an inner node has two children")
	if n.leftNode == nil || n.rightNode == nil {
		return 0, 0
	}
	lh, ls := verifC50Shape(n.leftNode)
	rh, rs := verifC50Shape(n.rightNode)
	d := lh - rh
	verifAssert(d >= -1 && d <= 1, "the tree stays height-balanced")
	h := lh
	if rh > h {
		h = rh
	}
	verifAssert(int(n.height) == h+1 && n.size == ls+rs, "height and size fields are consistent")
	return h + 1, ls + rs
}

func VerifC50_OrderedMap() {
	nops := 4
	if verifThorough() {
		nops = 5
	}
	t := NewTree()
	m := &verifC50Model{}
	var keys []string
	for s := 0; s < nops; s++ {
		k := verifString("key", 1)
		keys = append(keys, k)
		if verifChoose("op", 2) == 0 {
			before := m.get(k)
			updated := t.Set(k, s)
			verifAssert(updated == (before >= 0), "Set reports whether the key existed")
			m.put(k, s)
		} else {
			before := m.get(k)
			v, removed := t.Remove(k)
			verifAssert(removed == (before >= 0), "Remove reports whether the key existed")
			if removed && before >= 0 {
				verifAssert(v.(int) == before, "Remove returns the stored value")
			}
			m.put(k, -1)
		}
	}
	live := m.live()
	verifAssert(t.Size() == len(live), "Size is the number of live keys")
	verifC50Shape(t.node)
	for _, k := range keys {
		v := t.Get(k)
		want := m.get(k)
		verifAssert(t.Has(k) == (want >= 0) && (v != nil) == (want >= 0), "Get / Has agree with the ordered-map model")
		if v != nil && want >= 0 {
			verifAssert(v.(int) == want, "Get returns the last value set")
		}
	}
	for i := range live {
		k, v := t.GetByIndex(i)
		verifAssert(k == live[i] && v.(int) == m.get(live[i]), "GetByIndex enumerates the keys in ascending order")
	}
	// iteration: full range or a symbolic [start, end) range, ascending or descending
	start, end := "", ""
	if verifChoose("range", 2) == 1 {
		start, end = verifString("start", 1), verifString("end", 1)
	}
	asc := verifChoose("asc", 2) == 0
	var want []string
	for _, k := range live {
		in := (start == "" || start <= k)
		if asc {
			in = in && (end == "" || k < end)
		} else {
			in = in && (end == "" || k <= end) // descending: both bounds inclusive (documented)
		}
		if in {
			want = append(want, k)
		}
	}
	var got []string
	cb := func(k string, v any) bool { got = append(got, k); return false }
	if asc {
		t.Iterate(start, end, cb)
	} else {
		t.ReverseIterate(start, end, cb)
	}
	verifAssert(len(got) == len(want), "iteration visits exactly the live keys in range")
	for i := range got {
		if i < len(want) {
			j := i
			if !asc {
				j = len(want) - 1 - i
			}
			verifAssert(got[i] == want[j], "iteration visits the keys in order")
		}
	}
	verifReach("end")
}
