package mempool

// Harness for C40 (mempool): sequential histories of CheckTx / Update over a
// real CListMempool whose application connection answers synchronously, with
// reaps (symbolic byte, gas and count limits) after every step. Gas wanted of
// each transaction is symbolic. Interleavings (goroutine schedules) are not
// explored.

import (
	abcicli "github.com/gnolang/gno/tm2/pkg/bft/abci/client"
	abci "github.com/gnolang/gno/tm2/pkg/bft/abci/types"
	cfg "github.com/gnolang/gno/tm2/pkg/bft/mempool/config"
	"github.com/gnolang/gno/tm2/pkg/bft/types"
)

const verifC40Txs = 3

// application stand-in: answers CheckTx immediately with the prepared verdict
type verifC40App struct {
	ok  [verifC40Txs]bool
	gas [verifC40Txs]int64
}

func (a *verifC40App) SetResponseCallback(abcicli.Callback) {}
func (a *verifC40App) Error() error                         { return nil }
func (a *verifC40App) FlushAsync() *abcicli.ReqRes          { return nil }
func (a *verifC40App) FlushSync() error                     { return nil }
func (a *verifC40App) CheckTxAsync(req abci.RequestCheckTx) *abcicli.ReqRes {
	rr := abcicli.NewReqRes(req)
	t := int(req.Tx[0])
	res := abci.ResponseCheckTx{GasWanted: a.gas[t]}
	if !a.ok[t] {
		res.Error = abci.StringError("rejected")
	}
	rr.SetResponse(res)
	return rr
}

// transaction t is t+1 bytes long and starts with byte t
func verifC40Tx(t int) types.Tx {
	tx := make([]byte, t+1)
	tx[0] = byte(t)
	return tx
}

type verifC40Model struct {
	order []int // ids in arrival order
	cache [verifC40Txs]bool
	gas   [verifC40Txs]int64
}

func (m *verifC40Model) has(t int) bool {
	for _, x := range m.order {
		if x == t {
			return true
		}
	}
	return false
}

func (m *verifC40Model) bytes() (n int64) {
	for _, x := range m.order {
		n += int64(x + 1)
	}
	return
}

func verifC40Observe(mem *CListMempool, m *verifC40Model, sizeLimit int, bytesLimit int64, reap bool) {
	verifAssert(mem.Size() == len(m.order) && mem.TxsBytes() == m.bytes(), "size and byte counters match the contents")
	verifAssert(mem.Size() <= sizeLimit && mem.TxsBytes() <= bytesLimit, "the mempool never exceeds its size limits")
	all := mem.ReapMaxTxs(-1)
	verifAssert(len(all) == len(m.order), "ReapMaxTxs(-1) returns everything")
	for k := range all {
		if k < len(m.order) {
			verifAssert(len(all[k]) == m.order[k]+1 && int(all[k][0]) == m.order[k], "transactions are kept in arrival order, none twice")
		}
	}
	if !reap {
		return
	}
	// reap with symbolic limits
	maxBytes, maxGas := verifNondetInt64("maxBytes"), verifNondetInt64("maxGas")
	verifAssume(maxBytes >= -1)
	verifAssume(maxBytes != 0)
	verifAssume(maxGas >= -1)
	got := mem.ReapMaxBytesMaxGas(maxBytes, maxGas)
	var nb, ng int64
	want := 0
	for _, t := range m.order {
		if maxBytes > -1 && nb+int64(t+1) > maxBytes {
			break
		}
		if maxGas > -1 && ng+m.gas[t] > maxGas {
			break
		}
		nb += int64(t + 1)
		ng += m.gas[t]
		want++
	}
	verifAssert(len(got) == want, "ReapMaxBytesMaxGas returns the longest prefix within the byte and gas limits")
	for k := range got {
		if k < len(m.order) {
			verifAssert(int(got[k][0]) == m.order[k], "the reap is a prefix of the contents")
		}
	}
	max := verifNondetInt("maxTxs")
	verifAssume(max >= -1)
	verifAssume(max <= 8)
	gotN := mem.ReapMaxTxs(max)
	wantN := len(m.order)
	if max >= 0 && max < wantN {
		wantN = max
	}
	verifAssert(len(gotN) <= wantN, "ReapMaxTxs never returns more transactions than requested")
	verifAssert(len(gotN) >= wantN, "ReapMaxTxs returns min(requested, size) transactions")
	for k := range gotN {
		if k < len(m.order) {
			verifAssert(int(gotN[k][0]) == m.order[k], "ReapMaxTxs returns a prefix of the contents")
		}
	}
}

func verifC40New(app *verifC40App, sizeLimit int, bytesLimit, maxTxBytes int64) *CListMempool {
	conf := &cfg.MempoolConfig{Size: sizeLimit, MaxPendingTxsBytes: bytesLimit, CacheSize: 10}
	return NewCListMempool(conf, app, 1, maxTxBytes)
}

// Histories of CheckTx / Update: contents, order, duplicates, limits.
func VerifC40_History() {
	steps := 3 // both tiers: 4 steps exceed the path budget (600000 paths, 39 prefixes still pending after 384 s)
	app := &verifC40App{}
	m := &verifC40Model{}
	sizeLimit := 1 + verifChoose("sizeLimit", 3)
	bytesLimit := int64(2 + verifChoose("bytesLimit", 5))
	maxTxBytes := int64(2 + verifChoose("maxTxBytes", 2))
	mem := verifC40New(app, sizeLimit, bytesLimit, maxTxBytes)
	verifC40Observe(mem, m, sizeLimit, bytesLimit, false)

	for s := 0; s < steps; s++ {
		t := verifChoose("tx", verifC40Txs)
		ok := verifChoose("verdict", 2) == 1
		if verifChoose("op", 2) == 0 {
			app.ok[t] = ok
			err := mem.CheckTx(verifC40Tx(t), nil)
			switch {
			case len(m.order) >= sizeLimit || m.bytes()+int64(t+1) > bytesLimit:
				_, full := err.(MempoolIsFullError)
				verifAssert(full, "a submission to a full mempool is refused")
			case int64(t+1) > maxTxBytes:
				_, big := err.(TxTooLargeError)
				verifAssert(big, "an oversized transaction is refused")
			case m.cache[t]:
				verifAssert(err == ErrTxInCache, "a transaction seen before is refused")
			default:
				verifAssert(err == nil, "a new transaction is handed to the application")
				if ok {
					m.cache[t] = true
					m.order = append(m.order, t)
				}
			}
		} else {
			var res abci.ResponseDeliverTx
			if !ok {
				res.Error = abci.StringError("failed")
			}
			err := mem.Update(int64(2+s), types.Txs{verifC40Tx(t)}, []abci.ResponseDeliverTx{res}, nil, 0)
			verifAssert(err == nil, "Update succeeds")
			m.cache[t] = ok
			for k, x := range m.order {
				if x == t {
					m.order = append(m.order[:k:k], m.order[k+1:]...)
					break
				}
			}
		}
		verifC40Observe(mem, m, sizeLimit, bytesLimit, false)
	}
	verifReach("end")
}

// Reaps with symbolic limits and symbolic gas over every mempool content
// reachable by submitting 0..3 transactions in any order and then committing
// at most one of them.
func VerifC40_Reap() {
	app := &verifC40App{}
	m := &verifC40Model{}
	for t := 0; t < verifC40Txs; t++ {
		g := verifNondetInt64("gas")
		verifAssume(g >= 0)
		verifAssume(g <= 1<<60)
		app.gas[t], m.gas[t] = g, g
		app.ok[t] = true
	}
	mem := verifC40New(app, 10, 100, 10)
	n := verifChoose("n", verifC40Txs+1)
	for k := 0; k < n; k++ {
		t := verifChoose("tx", verifC40Txs)
		if m.has(t) {
			return // orders are permutations
		}
		verifAssert(mem.CheckTx(verifC40Tx(t), nil) == nil, "accepted")
		m.order = append(m.order, t)
	}
	if c := verifChoose("commit", verifC40Txs+1); c > 0 {
		t := c - 1
		mem.Update(2, types.Txs{verifC40Tx(t)}, []abci.ResponseDeliverTx{{}}, nil, 0)
		for k, x := range m.order {
			if x == t {
				m.order = append(m.order[:k:k], m.order[k+1:]...)
				break
			}
		}
	}
	verifC40Observe(mem, m, 10, 100, true)
	verifReach("end")
}
