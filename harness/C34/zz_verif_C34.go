package privval

// Harness for C34 (the validator never double-signs): PrivValidator.SignVote /
// SignProposal with the real FileState.CheckHRS / Update over a harness
// "disk" (the state file), with restarts from the disk between requests and
// failing writes. Heights and rounds are SYMBOLIC; the kind of each request
// (vote type / proposal, payload A or B, timestamp 1 or 2) and the restart
// and write-failure points are structural choices.

import (
	"bytes"
	"encoding/binary"
	"errors"
	"os"
	"path/filepath"
	"time"

	fstate "github.com/gnolang/gno/tm2/pkg/bft/privval/state"
	"github.com/gnolang/gno/tm2/pkg/bft/types"
	"github.com/gnolang/gno/tm2/pkg/crypto"
)

// ---- symbolic-run stand-ins (check config "func_stubs")

// canonical sign bytes: every signed field, the timestamp last (8 bytes)
func verifC34Bytes(typ byte, height int64, round int, hash []byte, ts time.Time) []byte {
	bz := []byte{typ}
	bz = binary.BigEndian.AppendUint64(bz, uint64(height))
	bz = binary.BigEndian.AppendUint64(bz, uint64(round))
	bz = append(bz, hash...)
	bz = binary.BigEndian.AppendUint64(bz, uint64(ts.Unix()))
	return bz
}

func verifStubC34VoteSignBytes(v *types.Vote, chainID string) []byte {
	return verifC34Bytes(byte(v.Type), v.Height, v.Round, v.BlockID.Hash, v.Timestamp)
}

func verifStubC34ProposalSignBytes(p *types.Proposal, chainID string) []byte {
	return verifC34Bytes(byte(p.Type), p.Height, p.Round, p.BlockID.Hash, p.Timestamp)
}

func verifStubC34OnlyDifferByTimestamp(fs *fstate.FileState, signBytes []byte) (time.Time, bool) {
	last := fs.SignBytes
	if len(last) < 8 || len(signBytes) != len(last) {
		panic("cannot decode sign bytes")
	}
	ts := time.Unix(int64(binary.BigEndian.Uint64(last[len(last)-8:])), 0)
	return ts, bytes.Equal(last[:len(last)-8], signBytes[:len(signBytes)-8])
}

// the state file: an atomic replace of the whole record, or a failed write
var (
	verifC34Disk      fstate.FileState
	verifC34WriteFail bool
)

func verifStubC34Save(fs *fstate.FileState) error {
	if verifC34WriteFail {
		return errors.New("disk full")
	}
	verifC34Disk = *fs
	verifC34Disk.SignBytes = append([]byte(nil), fs.SignBytes...)
	verifC34Disk.Signature = append([]byte(nil), fs.Signature...)
	return nil
}

// In the symbolic run this function is replaced by verifStubC34True (check
// config): the validator then runs over the stand-ins above. Natively it runs
// over a real state file in a temporary directory, with the real amino
// encodings; a failing write is provoked by moving the directory away.
func verifC34IsSymbolic() bool { return false }
func verifStubC34True() bool   { return true }

var verifC34Dir string

func verifC34NewPV(fresh bool) *PrivValidator {
	if verifC34IsSymbolic() {
		if fresh {
			verifC34Disk = fstate.FileState{}
			return &PrivValidator{signer: verifC34Signer{}, state: &fstate.FileState{}}
		}
		st := verifC34Disk
		return &PrivValidator{signer: verifC34Signer{}, state: &st}
	}
	if fresh {
		dir, err := os.MkdirTemp("", "verifC34")
		if err != nil {
			panic(err)
		}
		verifC34Dir = dir
	}
	pv, err := NewPrivValidator(verifC34Signer{}, filepath.Join(verifC34Dir, "state.json"))
	if err != nil {
		panic(err)
	}
	return pv
}

func verifC34SetWriteFail(fail bool) {
	verifC34WriteFail = fail
	if verifC34IsSymbolic() {
		return
	}
	if fail {
		os.Rename(verifC34Dir, verifC34Dir+".off")
	}
}

func verifC34AfterRequest() {
	if !verifC34IsSymbolic() && verifC34WriteFail {
		os.Rename(verifC34Dir+".off", verifC34Dir)
	}
}

type verifC34Signer struct{}

func (verifC34Signer) PubKey() crypto.PubKey { return verifC34Key{} }

type verifC34Key struct{}

func (verifC34Key) Address() crypto.Address     { return crypto.Address{} }
func (verifC34Key) Bytes() []byte                { return []byte{1} }
func (verifC34Key) Equals(o crypto.PubKey) bool  { _, ok := o.(verifC34Key); return ok }
func (verifC34Key) String() string               { return "verifkey" }
func (verifC34Key) VerifyBytes(m, s []byte) bool { return len(s) == len(m)+1 && s[0] == 0x51 && bytes.Equal(s[1:], m) }
func (verifC34Signer) Close() error          { return nil }
func (verifC34Signer) Sign(b []byte) ([]byte, error) {
	return append([]byte{0x51}, b...), nil
}

type verifC34Req struct {
	h         int64
	r         int
	kind, pay int
	tsv       int64
}

func verifC34Request(tag string) (q verifC34Req) {
	q.h = verifNondetInt64(tag + ".height")
	q.r = verifNondetInt(tag + ".round")
	verifAssume(q.h >= 1)
	verifAssume(q.h <= 1<<40)
	verifAssume(q.r >= 0)
	verifAssume(q.r <= 1<<20)
	q.kind = verifChoose(tag+".kind", 3) // 0 proposal, 1 prevote, 2 precommit
	q.pay = verifChoose(tag+".payload", 2)
	q.tsv = int64(1 + verifChoose(tag+".timestamp", 2))
	return
}

// send performs the request and returns (error, signature, timestamp returned)
func (q verifC34Req) send(pv *PrivValidator) (error, []byte, int64) {
	hash := []byte{byte(0xA0 + q.pay)}
	ts := time.Unix(q.tsv, 0)
	if q.kind == 0 {
		p := &types.Proposal{Type: types.ProposalType, Height: q.h, Round: q.r, BlockID: types.BlockID{Hash: hash}, Timestamp: ts}
		err := pv.SignProposal("chain", p)
		return err, p.Signature, p.Timestamp.Unix()
	}
	typ := types.PrevoteType
	if q.kind == 2 {
		typ = types.PrecommitType
	}
	v := &types.Vote{Type: typ, Height: q.h, Round: q.r, BlockID: types.BlockID{Hash: hash}, Timestamp: ts}
	err := pv.SignVote("chain", v)
	return err, v.Signature, v.Timestamp.Unix()
}

func verifC34Same(a, b *fstate.FileState) bool {
	return a.Height == b.Height && a.Round == b.Round && a.Step == b.Step &&
		bytes.Equal(a.SignBytes, b.SignBytes) && bytes.Equal(a.Signature, b.Signature)
}

// One inductive step. The pre-state is ANY state the validator can be in at a
// request boundary: nothing signed yet, or the record of an arbitrary last
// signature (symbolic height and round, any kind / payload / timestamp), in
// memory and - identically - in the state file (invariant I). Then one
// request with symbolic height and round arrives, its state-file write
// succeeds or fails, and the process may restart. Decided:
//   - a signature is returned only for an HRS >= the recorded one; at the same
//     HRS only for the same message, and then it is the recorded signature
//     and timestamp;
//   - afterwards memory and state file agree again (I is preserved) and hold
//     the new record exactly when a new signature was returned.
// Since every returned signature is recorded before it is returned and the
// record only moves up, this covers request sequences of any length with
// crash/restart points between requests.
func VerifC34_NoDoubleSign() {
	verifC34WriteFail = false
	pv := verifC34NewPV(true)
	defer func() {
		if !verifC34IsSymbolic() {
			os.RemoveAll(verifC34Dir)
			os.RemoveAll(verifC34Dir + ".off")
		}
	}()
	// pre-state
	signedBefore := verifChoose("signedBefore", 2) == 1
	var q0 verifC34Req
	var sig0 []byte
	var ts0 int64
	if signedBefore {
		q0 = verifC34Request("last")
		var err error
		err, sig0, ts0 = q0.send(pv)
		verifAssert(err == nil && len(sig0) > 0, "the first request of a fresh validator is signed")
	}
	if verifChoose("restartBefore", 2) == 1 {
		pv = verifC34NewPV(false)
	}
	pre := *pv.state

	// the step
	q := verifC34Request("req")
	verifC34SetWriteFail(verifChoose("writeFails", 2) == 1)
	err, sig, ts := q.send(pv)
	verifC34AfterRequest()

	if err == nil {
		verifAssert(len(sig) > 0, "a successful request returns a signature")
		if signedBefore {
			lower := q.h < q0.h || (q.h == q0.h && (q.r < q0.r || (q.r == q0.r && q.kind < q0.kind)))
			verifAssert(!lower, "never signs for a height/round/step lower than one already signed")
			if q.h == q0.h && q.r == q0.r && q.kind == q0.kind {
				verifAssert(q.pay == q0.pay, "never returns signatures for two different messages at the same height, round and step")
				verifAssert(bytes.Equal(sig, sig0) && ts == ts0, "a repeated request (same message, possibly another timestamp) gets the original signature and timestamp")
			}
		}
	}
	// invariant: what a restart would load is what the process holds
	mem := *pv.state
	pv2 := verifC34NewPV(false)
	verifAssert(verifC34Same(&mem, pv2.state), "after every request the in-memory sign state equals the state file")
	sameHRS := signedBefore && q.h == q0.h && q.r == q0.r && q.kind == q0.kind
	if err == nil && !sameHRS {
		verifAssert(mem.Height == q.h && mem.Round == q.r && int(mem.Step) == q.kind+1 && bytes.Equal(mem.Signature, sig), "a newly returned signature is on record")
	} else {
		verifAssert(verifC34Same(&mem, &pre), "a refused, failed or repeated request leaves the record unchanged")
	}
	verifReach("end")
}
